package main

import (
	"fmt"
	"go/token"
	"go/types"
	"sort"
	"strconv"
	"strings"

	"golang.org/x/tools/go/ssa"
)

// checkFallbackOnlyForMainRune: the real screen and its test double agree on when the fallback table
// is consulted: only while nothing has been written for the cell yet, i.e. for the main rune; a
// combining rune the character set lacks is elided, whether or not somebody registered a fallback
// for it.  In both encoders every lookup in the fallback map must be dominated by a test that the
// bytes collected so far are empty (`len(buf) == 0`, `simc.Bytes == nil`, or the complement on the
// other branch).
func checkFallbackOnlyForMainRune(c *Ctx, p *Prog, rule string) {
	type site struct {
		name  string
		entry string
		owner string
	}
	for _, s := range []site{
		{"simscreen.drawCell", "tcell:(*simscreen).drawCell", "tcell.simscreen"},
		{"tScreen.drawCell", "tcell:(*tScreen).drawCell", "tcell.tScreen"},
	} {
		entry := p.Fn(s.entry)
		if entry == nil {
			c.Undecided(rule, s.name, "-", "not found")
			continue
		}
		// the function and what it calls in its package, three levels down
		fns := []*ssa.Function{entry}
		seen := map[*ssa.Function]bool{entry: true}
		for depth, lo := 0, 0; depth < 3; depth++ {
			hi := len(fns)
			for _, f := range fns[lo:hi] {
				eachInstr(f, func(in ssa.Instruction) {
					if cc := callCommon(in); cc != nil {
						if h := cc.StaticCallee(); h != nil && h.Pkg == entry.Pkg && len(h.Blocks) > 0 && !seen[h] {
							seen[h] = true
							fns = append(fns, h)
						}
					}
				})
			}
			lo = hi
		}
		n, bad := 0, ""
		for _, f := range fns {
			eachInstr(f, func(in ssa.Instruction) {
				lk, ok := in.(*ssa.Lookup)
				if !ok {
					return
				}
				ref, _, isF := loadedField(lk.X)
				if !isF || ref.Owner != s.owner || ref.Name != "fallback" {
					return
				}
				n++
				if !underEmptyOutputTest(p, lk, f, 0) {
					bad += "the fallback table is consulted at " + p.pos(lk.Pos()) + " whatever has been written for the cell already; "
				}
			})
		}
		c.Check(n > 0 && bad == "", rule, s.name+":fallback-only-for-the-main-rune", p.pos(entry.Pos()), fmt.Sprintf("%d lookup(s) in the fallback table, each under a test that the cell's bytes are still empty %s", n, bad))
	}
}

// emptyOutputTest: the guard says that the bytes collected for the cell are empty: a nil or
// zero-length test of SimCell.Bytes or of a []byte parameter of f (possibly grown by append in a
// loop), holding on the branch taken.
func emptyOutputTest(g rawGuard, f *ssa.Function) bool {
	bo, ok := g.Cond.(*ssa.BinOp)
	if !ok {
		return false
	}
	isOut := func(v ssa.Value) bool { return isByteAccumulator(v, f, map[ssa.Value]bool{}) }
	// x == nil
	if isNilConst(bo.Y) && isOut(bo.X) {
		return (bo.Op == token.EQL && g.Positive) || (bo.Op == token.NEQ && !g.Positive)
	}
	// len(x) ? 0
	call, isCall := bo.X.(*ssa.Call)
	if !isCall {
		return false
	}
	if b, isB := call.Call.Value.(*ssa.Builtin); !isB || b.Name() != "len" || len(call.Call.Args) != 1 || !isOut(call.Call.Args[0]) {
		return false
	}
	k, isK := constInt(bo.Y)
	if !isK {
		return false
	}
	switch {
	case k == 0 && bo.Op == token.EQL, k == 0 && bo.Op == token.LEQ, k == 1 && bo.Op == token.LSS:
		return g.Positive
	case k == 0 && bo.Op == token.NEQ, k == 0 && bo.Op == token.GTR, k == 1 && bo.Op == token.GEQ:
		return !g.Positive
	}
	return false
}

// underEmptyOutputTest: the instruction only runs while the cell's bytes are empty: a dominating test
// in its own function, or — when it sits in a helper (`substituteFor(r)`) — at every call of that helper.
func underEmptyOutputTest(p *Prog, in ssa.Instruction, f *ssa.Function, depth int) bool {
	for _, g := range rawGuardsAt(in.Block()) {
		if emptyOutputTest(g, f) {
			return true
		}
	}
	if depth >= 2 {
		return false
	}
	n, all := 0, true
	for _, caller := range p.modFns {
		if caller.Pkg != f.Pkg {
			continue
		}
		eachInstr(caller, func(ci ssa.Instruction) {
			if cc := callCommon(ci); cc != nil && cc.StaticCallee() == f {
				n++
				if !underEmptyOutputTest(p, ci, caller, depth+1) {
					all = false
				}
			}
		})
	}
	return n > 0 && all
}

// isByteAccumulator: v is the []byte a cell's bytes are collected in: SimCell.Bytes, a []byte parameter
// of f, or a local that starts empty (nil, make([]byte, 0, n)) and only grows by append — not a scratch
// buffer of fixed length.
func isByteAccumulator(v ssa.Value, f *ssa.Function, seen map[ssa.Value]bool) bool {
	if seen[v] {
		return true
	}
	seen[v] = true
	if sl, ok := v.Type().Underlying().(*types.Slice); !ok {
		return false
	} else if b, isB := sl.Elem().Underlying().(*types.Basic); !isB || b.Kind() != types.Uint8 {
		return false
	}
	if ref, _, isF := loadedField(v); isF {
		return ref.Owner == "tcell.SimCell" && ref.Name == "Bytes"
	}
	switch x := v.(type) {
	case *ssa.Const:
		return x.IsNil()
	case *ssa.Parameter:
		return x.Parent() == f
	case *ssa.Phi:
		for _, e := range x.Edges {
			if !isByteAccumulator(e, f, seen) {
				return false
			}
		}
		return true
	case *ssa.Slice:
		return isByteAccumulator(x.X, f, seen)
	case *ssa.MakeSlice:
		k, ok := constInt(x.Len)
		return ok && k == 0
	case *ssa.Call:
		if b, isB := x.Call.Value.(*ssa.Builtin); isB && b.Name() == "append" && len(x.Call.Args) >= 1 {
			return isByteAccumulator(x.Call.Args[0], f, seen)
		}
	}
	return false
}

// checkDeadlineHandleStaysPollable: Drain and Stop get the input loop out of a blocked Read by setting
// a read deadline of "now" on the handle.  That only works while the runtime poller manages the
// descriptor; (*os.File).Fd switches it to blocking mode for good, after which a deadline no longer
// interrupts a Read and Suspend/Fini wait for the next key.  For every Tty implementation that opens
// its own handle (os.OpenFile stored into the field Read uses) and relies on a deadline on it: nobody
// calls Fd on that handle — the descriptor for termios calls comes from a second handle.
func checkDeadlineHandleStaysPollable(c *Ctx, p *Prog, rule string) {
	for _, tname := range []string{"devTty", "stdIoTty"} {
		owner := "tcell." + tname
		rd := p.Fn("tcell:(*" + tname + ").Read")
		if rd == nil {
			if p.namedType(p.Tcell, tname) != nil {
				c.Undecided(rule, tname+":deadline-handle", "-", "Read not found")
			}
			continue
		}
		handle := ""
		eachInstr(rd, func(in ssa.Instruction) {
			if cc := callCommon(in); cc != nil && calleeName(cc) == "(*os.File).Read" && len(cc.Args) > 0 {
				if ref, _, ok := loadedField(cc.Args[0]); ok && ref.Owner == owner {
					handle = ref.Name
				}
			}
		})
		key := tname + ":deadline-handle-stays-pollable"
		if handle == "" {
			c.Undecided(rule, key, p.pos(rd.Pos()), "the file handle Read uses was not identified")
			continue
		}
		// what is stored into the handle, and whether a deadline is set on it
		stored := map[ssa.Value]bool{}
		opened, deadline := false, false
		for _, fn := range p.modFns {
			if fn.Pkg != p.Tcell {
				continue
			}
			eachInstr(fn, func(in ssa.Instruction) {
				if st, ok := in.(*ssa.Store); ok {
					if ref, _, okR := fieldAddrRef(st.Addr); okR && ref.Owner == owner && ref.Name == handle {
						stored[st.Val] = true
						if ex, isEx := st.Val.(*ssa.Extract); isEx {
							if call, isCall := ex.Tuple.(*ssa.Call); isCall && (calleeName(&call.Call) == "os.OpenFile" || calleeName(&call.Call) == "os.Open") {
								opened = true
							}
						}
					}
				}
				if cc := callCommon(in); cc != nil && calleeName(cc) == "(*os.File).SetReadDeadline" && len(cc.Args) == 2 && !isZeroValue(cc.Args[1]) {
					if ref, _, ok := loadedField(cc.Args[0]); ok && ref.Owner == owner && ref.Name == handle {
						deadline = true
					}
				}
			})
		}
		if !opened || !deadline {
			c.Trivial(rule, key, p.pos(rd.Pos()), fmt.Sprintf("%s.%s: opened by the implementation: %v, woken by a deadline: %v (a handle that is handed in, like stdin, has no other way to its descriptor)", tname, handle, opened, deadline))
			continue
		}
		bad := ""
		for _, fn := range p.modFns {
			if fn.Pkg != p.Tcell {
				continue
			}
			eachInstr(fn, func(in ssa.Instruction) {
				cc := callCommon(in)
				if cc == nil || calleeName(cc) != "(*os.File).Fd" || len(cc.Args) != 1 {
					return
				}
				recv := cc.Args[0]
				if ref, _, ok := loadedField(recv); (ok && ref.Owner == owner && ref.Name == handle) || stored[recv] {
					bad += "Fd() on the handle at " + p.pos(in.Pos()) + " switches it to blocking mode; "
				}
			})
		}
		c.Check(bad == "", rule, key, p.pos(rd.Pos()), fmt.Sprintf("%s.%s is opened by Start and woken by a read deadline; nothing takes its descriptor out of the poller %s", tname, handle, bad))
	}
}

// popKind: v is the first result of a pop of the interpreter's stack — a method of package terminfo
// that returns (T, <its receiver type>) — and T is int ("int"), string ("string") or anything else
// ("raw": the element as it was pushed).
func popKind(p *Prog, v ssa.Value) string {
	ex, ok := v.(*ssa.Extract)
	if !ok || ex.Index != 0 {
		return ""
	}
	call, ok := ex.Tuple.(*ssa.Call)
	if !ok {
		return ""
	}
	f := call.Call.StaticCallee()
	if f == nil || f.Pkg != p.Terminfo || f.Signature.Recv() == nil || f.Signature.Results().Len() != 2 {
		return ""
	}
	if !types.Identical(f.Signature.Results().At(1).Type(), f.Signature.Recv().Type()) {
		return ""
	}
	if b, isB := f.Signature.Results().At(0).Type().Underlying().(*types.Basic); isB {
		switch {
		case b.Info()&types.IsInteger != 0:
			return "int"
		case b.Kind() == types.String:
			return "string"
		}
	}
	return "raw"
}

// checkFormattedOperandCoerced: a printf-style conversion hands fmt an operand of the type the
// conversion byte asks for: %d %x %X %o %c get the element popped as a number, %s gets it popped as a
// string.  The stack holds ints and strings side by side (%P stores everything as a string, parameters
// may be either), so the element as it was pushed makes fmt print `%!d(string=7)`.
func checkFormattedOperandCoerced(c *Ctx, p *Prog, rule string) {
	fn := p.Fn("terminfo:(*Terminfo).TParm")
	if fn == nil {
		c.Undecided(rule, "TParm", "-", "not found")
		return
	}
	n := 0
	for _, d := range deepInstrs(p, fn, 1, nil) {
		cc := callCommon(d.in)
		if cc == nil || calleeName(cc) != "fmt.Sprintf" || len(cc.Args) != 2 {
			continue
		}
		// the variadic operands: stores into the backing array of the slice
		sl, ok := cc.Args[1].(*ssa.Slice)
		if !ok {
			continue
		}
		al, ok := sl.X.(*ssa.Alloc)
		if !ok {
			continue
		}
		var ops []ssa.Value
		for _, r := range referrers(al) {
			if ia, isIA := r.(*ssa.IndexAddr); isIA {
				for _, r2 := range referrers(ia) {
					if st, isSt := r2.(*ssa.Store); isSt {
						ops = append(ops, st.Val)
					}
				}
			}
		}
		n++
		key := fmt.Sprintf("TParm:formatted#%d", n)
		if len(ops) != 1 {
			c.Fail(rule, key, p.pos(d.in.Pos()), fmt.Sprintf("%d operands handed to fmt, expected the one popped", len(ops)))
			continue
		}
		x := ops[0]
		if mi, isMI := x.(*ssa.MakeInterface); isMI {
			x = mi.X
		}
		kind := popKind(p, x)
		// which conversion bytes lead here
		isS := false
		for _, g := range rawGuardsAt(d.in.Block()) {
			if bo, isBO := g.Cond.(*ssa.BinOp); isBO && bo.Op == token.EQL && g.Positive {
				if k, isK := constInt(bo.Y); isK && k == 's' {
					isS = true
				}
			}
		}
		switch {
		case kind == "string" && isS:
			c.OK(rule, key, p.pos(d.in.Pos()), "%s formats the element popped as a string")
		case kind == "int" && !isS:
			c.OK(rule, key, p.pos(d.in.Pos()), "a numeric conversion formats the element popped as a number")
		case kind == "":
			c.Fail(rule, key, p.pos(d.in.Pos()), "the operand handed to fmt is not a coerced pop: "+valName(x))
		default:
			c.Fail(rule, key, p.pos(d.in.Pos()), fmt.Sprintf("the operand is popped as %s (under the %%s case: %v): fmt prints a mismatch as %%!verb(type=value)", kind, isS))
		}
	}
	if n == 0 {
		c.Undecided(rule, "TParm:formatted", p.pos(fn.Pos()), "no fmt.Sprintf call found in the interpreter")
	}
}

// transformerRole: what v is, followed through interface conversions, phis and module helpers that
// return it: "enc" for the result of an encoding's NewEncoder, "dec" for NewDecoder, "nil" for a nil
// constant, "" for anything else; "mixed" when the ways disagree.
func transformerRole(v ssa.Value, depth int) string {
	switch x := v.(type) {
	case *ssa.MakeInterface:
		return transformerRole(x.X, depth)
	case *ssa.ChangeInterface:
		return transformerRole(x.X, depth)
	case *ssa.ChangeType:
		return transformerRole(x.X, depth)
	case *ssa.Const:
		if x.IsNil() {
			return "nil"
		}
	case *ssa.Call:
		if x.Call.IsInvoke() {
			switch x.Call.Method.Name() {
			case "NewEncoder":
				return "enc"
			case "NewDecoder":
				return "dec"
			}
			return ""
		}
		if h := x.Call.StaticCallee(); h != nil && depth < 3 && len(h.Blocks) > 0 && h.Signature.Results().Len() == 1 {
			return joinRoles(h, 0, depth)
		}
	case *ssa.Extract:
		if call, ok := x.Tuple.(*ssa.Call); ok && !call.Call.IsInvoke() {
			if h := call.Call.StaticCallee(); h != nil && depth < 3 && len(h.Blocks) > 0 {
				return joinRoles(h, x.Index, depth)
			}
		}
	case *ssa.Phi:
		role := "nil"
		for _, e := range x.Edges {
			r := transformerRole(e, depth+1)
			switch {
			case r == "nil":
			case role == "nil":
				role = r
			case role != r:
				return "mixed"
			}
		}
		return role
	}
	return ""
}

func joinRoles(h *ssa.Function, idx int, depth int) string {
	role := "nil"
	for _, r := range returnsOf(h) {
		if idx >= len(r.Results) {
			return ""
		}
		x := transformerRole(r.Results[idx], depth+1)
		switch {
		case x == "nil":
		case role == "nil":
			role = x
		case role != x:
			return "mixed"
		}
	}
	return role
}

// checkTransformersNotSwapped: what a screen keeps as its encoder comes from NewEncoder of the
// character set's encoding, what it keeps as its decoder from NewDecoder — at every place the fields
// are assigned (Init today; a Resume that renews them must do the same).  Both have the same static
// type, so the compiler accepts them the wrong way round.
func checkTransformersNotSwapped(c *Ctx, p *Prog, rule string) {
	n := 0
	for _, f := range p.modFns {
		if f.Pkg != p.Tcell {
			continue
		}
		eachInstr(f, func(in ssa.Instruction) {
			st, ok := in.(*ssa.Store)
			if !ok {
				return
			}
			ref, _, isF := fieldAddrRef(st.Addr)
			if !isF || (ref.Name != "encoder" && ref.Name != "decoder") || !strings.HasPrefix(ref.Owner, "tcell.") {
				return
			}
			n++
			want := "enc"
			if ref.Name == "decoder" {
				want = "dec"
			}
			got := transformerRole(st.Val, 0)
			key := fmt.Sprintf("%s.%s@%s", strings.TrimPrefix(ref.Owner, "tcell."), ref.Name, topFunc(f).Name())
			c.Check(got == want || got == "nil", rule, key, p.pos(st.Pos()), fmt.Sprintf("the value stored is the encoding's %q transformer (want %q)", got, want))
		})
	}
	if n == 0 {
		c.Undecided(rule, "encoder/decoder", "-", "no assignment of a screen's encoder or decoder found")
	}
}

// checkParsersTriedOnExpiry: in the collect loop a parser may be held back while some other parser says
// that more input could still complete a key (a focus report is the start of rxvt's Ctrl-arrow keys) —
// but not once the wait is over: a parser call that sits behind a test of the pending-counter alone is
// never reached on expiry while something is pending, and the report falls to the byte-by-byte
// fallback.  For every parser call: no dominating condition compares a loop-carried counter with zero
// (the clean form `partials == 0 || expire` does not dominate: the call is reached from both tests).
func checkParsersTriedOnExpiry(c *Ctx, p *Prog, rule string) {
	fn := collectLoopFn(p)
	if fn == nil {
		c.Undecided(rule, "collect loop", "-", "not found")
		return
	}
	isCounter := func(v ssa.Value) bool {
		phi, ok := v.(*ssa.Phi)
		if !ok {
			return false
		}
		if b, isB := phi.Type().Underlying().(*types.Basic); !isB || b.Info()&types.IsInteger == 0 {
			return false
		}
		for _, src := range phiSources(phi) {
			if add, isAdd := src.(*ssa.BinOp); isAdd && add.Op == token.ADD {
				if k, isK := constInt(add.Y); isK && k == 1 {
					return true
				}
			}
		}
		return false
	}
	n := 0
	eachInstr(fn, func(in ssa.Instruction) {
		call, ok := in.(*ssa.Call)
		if !ok {
			return
		}
		var h *ssa.Function
		for _, f := range calleesAt(in) {
			if isParserSig(f) {
				h = f
			}
		}
		if h == nil {
			return
		}
		n++
		bad := ""
		for _, g := range rawGuardsAt(call.Block()) {
			bo, isBO := g.Cond.(*ssa.BinOp)
			if !isBO || !isCounter(derefCell(bo.X)) {
				continue
			}
			if k, isK := constInt(bo.Y); !isK || k != 0 {
				continue
			}
			if (bo.Op == token.EQL && g.Positive) || (bo.Op == token.NEQ && !g.Positive) || (bo.Op == token.GTR && !g.Positive) || (bo.Op == token.LEQ && g.Positive) {
				bad = "only tried while nothing is pending (" + valName(bo.X) + " == 0), also when the wait is over"
			}
		}
		c.Check(bad == "", rule, "collect:"+h.Name()+":tried-on-expiry", p.pos(call.Pos()), "the parser call is not behind a test of the pending-counter alone "+bad)
	})
	if n == 0 {
		c.Undecided(rule, "collect:parser-calls", p.pos(fn.Pos()), "no parser call found")
	}
}

// checkForceDirtyEntries: which calls of the application can force cells to be repainted although
// their content did not change.  Every force-dirty site (Invalidate, SetDirty(…, true), UnlockCell,
// Resize of the cell buffer) in the screen's own code is attributed to the entry points (exported
// methods and the main loop) that reach it through static calls.  Entry points whose contract is a
// repaint are listed with the reason; a site reached from any other entry point must sit behind a test
// that the value being set differs from the one in force — `param != t.field` for the very field the
// function assigns the parameter to — or every such call repaints unchanged cells at the next Show.
func checkForceDirtyEntries(c *Ctx, p *Prog, rule, tname string) {
	owner := "tcell." + tname
	allowed := map[string]string{
		"Show":       "decided by C13-R2 (behind the size-changed test, or a documented neighbour site)",
		"Sync":       "repaints everything by contract",
		"Init":       "a fresh terminal",
		"Resume":     "the terminal was handed back in between: everything is repainted",
		"Suspend":    "the buffer is emptied while the terminal is handed back",
		"Fini":       "the buffer is emptied",
		"LockRegion": "an unlocked region is repainted (the property's last clause; C13-R4)",
		"mainLoop":   "a size report from the terminal",
		"SetSize":    "the terminal is asked for another size",
	}
	var entries []*ssa.Function
	for _, f := range p.modFns {
		if f.Pkg != p.Tcell || f.Parent() != nil || recvTypeName(f) != owner {
			continue
		}
		if ast := f.Object(); ast != nil && (ast.Exported() || f.Name() == "mainLoop" || f.Name() == "inputLoop") {
			entries = append(entries, f)
		}
	}
	reachOf := map[*ssa.Function]map[*ssa.Function]bool{}
	for _, e := range entries {
		r := map[*ssa.Function]bool{}
		var walk func(f *ssa.Function)
		walk = func(f *ssa.Function) {
			if f == nil || r[f] || f.Pkg != p.Tcell || recvTypeName(topFunc(f)) == "tcell.CellBuffer" {
				return
			}
			r[f] = true
			eachInstr(f, func(in ssa.Instruction) {
				if cc := callCommon(in); cc != nil {
					walk(staticCallee(cc))
				}
				// closures made here run on behalf of this function
				if mc, ok := in.(*ssa.MakeClosure); ok {
					if fn, isFn := mc.Fn.(*ssa.Function); isFn {
						walk(fn)
					}
				}
			})
		}
		walk(e)
		reachOf[e] = r
	}
	n := 0
	for _, f := range p.modFns {
		if f.Pkg != p.Tcell || recvTypeName(topFunc(f)) != owner {
			continue
		}
		k := 0
		eachInstr(f, func(in ssa.Instruction) {
			cc := callCommon(in)
			if cc == nil {
				return
			}
			name := calleeName(cc)
			kind := ""
			switch {
			case strings.HasSuffix(name, "CellBuffer).Invalidate"):
				kind = "Invalidate"
			case strings.HasSuffix(name, "CellBuffer).Resize"):
				kind = "Resize"
			case strings.HasSuffix(name, "CellBuffer).SetDirty") && len(cc.Args) == 4:
				if v, ok := constBool(cc.Args[3]); !ok || v {
					kind = "SetDirty(true)"
				}
			case strings.HasSuffix(name, "CellBuffer).UnlockCell"):
				kind = "UnlockCell"
			}
			if kind == "" {
				return
			}
			n++
			k++
			key := fmt.Sprintf("%s:%s#%d", f.RelString(p.Tcell.Pkg), kind, k)
			var from, foreign []string
			for _, e := range entries {
				if reachOf[e][f] {
					from = append(from, e.Name())
					if _, ok := allowed[e.Name()]; !ok || (e.Name() == "LockRegion" && kind != "UnlockCell") {
						// (LockRegion repaints what it unlocks, nothing else)
						foreign = append(foreign, e.Name())
					}
				}
			}
			sort.Strings(from)
			if len(foreign) == 0 {
				c.OK(rule, key, p.pos(in.Pos()), fmt.Sprintf("reached from %v only, each of which repaints by contract", from))
				return
			}
			// a setter: behind `param != t.field` for the field the parameter is stored in
			ok := false
			if top := topFunc(f); len(foreign) == 1 && top.Name() == foreign[0] && top == f {
				for _, g := range rawGuardsAt(in.Block()) {
					bo, isBO := g.Cond.(*ssa.BinOp)
					if !isBO || !((bo.Op == token.NEQ && g.Positive) || (bo.Op == token.EQL && !g.Positive)) {
						continue
					}
					for _, pair := range [][2]ssa.Value{{bo.X, bo.Y}, {bo.Y, bo.X}} {
						par, isPar := derefCell(pair[0]).(*ssa.Parameter)
						ref, _, isF := loadedField(pair[1])
						if !isPar || !isF || ref.Owner != owner {
							continue
						}
						// … and that field receives the parameter
						eachInstr(f, func(in2 ssa.Instruction) {
							if st, isSt := in2.(*ssa.Store); isSt {
								if r2, _, isF2 := fieldAddrRef(st.Addr); isF2 && r2 == ref && derefCell(st.Val) == ssa.Value(par) {
									ok = true
								}
							}
						})
					}
				}
			}
			c.Check(ok, rule, key, p.pos(in.Pos()), fmt.Sprintf("reached from %v; %v do(es) not repaint by contract, and the site is not behind a test that the value being set differs from the one in force: the next Show rewrites cells that did not change", from, foreign))
		})
	}
	if n == 0 && tname == "baseScreen" {
		c.Trivial(rule, tname+":force-dirty-sites", "-", "no direct force-dirty call in the shared layer (LockRegion may reach UnlockCell through a method value)")
	} else if n == 0 {
		c.Undecided(rule, tname+":force-dirty-sites", "-", "no force-dirty site found")
	}
}

// checkCellLoopGate: Show looks at every cell on every pass; whether a cell is painted is decided per
// cell (Dirty).  A shortcut that skips the whole loop behind a flag ("nothing was stored since the last
// pass") is only right if everything that can make a cell dirty raises the flag.  The guards on the way
// from draw to the drawCell calls are collected (through the helper that holds the loop, if any); for
// every one that is a boolean field other than the running/finished state, every function of the
// package that stores the force-dirty marker (lastMain = 0), clears a lock or stores cell content must
// also store true into that field.
func checkCellLoopGate(c *Ctx, p *Prog, rule, tname string) {
	draw := p.Fn("tcell:(*" + tname + ").draw")
	dc := p.Fn("tcell:(*" + tname + ").drawCell")
	if draw == nil || dc == nil {
		c.Undecided(rule, tname+".draw:cell-loop-gate", "-", "draw or drawCell not found")
		return
	}
	// the guards above the drawCell calls, up to draw
	var gates []rawGuard
	found := false
	var collect func(f *ssa.Function, depth int)
	collect = func(f *ssa.Function, depth int) {
		eachInstr(f, func(in ssa.Instruction) {
			cc := callCommon(in)
			if cc == nil {
				return
			}
			h := cc.StaticCallee()
			if h == dc {
				found = true
				gates = append(gates, rawGuardsAt(in.Block())...)
				return
			}
			if h != nil && depth < 2 && h.Pkg == p.Tcell && recvTypeName(h) == "tcell."+tname && reachesStatically(h, dc, 2) {
				gates = append(gates, rawGuardsAt(in.Block())...)
				collect(h, depth+1)
			}
		})
	}
	collect(draw, 0)
	if !found {
		c.Undecided(rule, tname+".draw:cell-loop-gate", p.pos(draw.Pos()), "no call of drawCell found below draw")
		return
	}
	type flag struct{ owner, name string }
	flags := map[flag]bool{}
	for _, g := range gates {
		cond := g.Cond
		for {
			if u, ok := cond.(*ssa.UnOp); ok && u.Op == token.NOT {
				cond = u.X
				continue
			}
			break
		}
		ref, _, ok := loadedField(cond)
		if !ok {
			continue
		}
		if b, isB := cond.Type().Underlying().(*types.Basic); !isB || b.Kind() != types.Bool {
			continue
		}
		if ref.Name == "running" || ref.Name == "fini" {
			continue
		}
		flags[flag{ref.Owner, ref.Name}] = true
	}
	if len(flags) == 0 {
		c.OK(rule, tname+".draw:cell-loop-gate", p.pos(draw.Pos()), "the cell loop runs on every pass of a running screen: no flag stands between draw and drawCell")
		return
	}
	for fl := range flags {
		bad := ""
		for _, f := range p.modFns {
			if f.Pkg != p.Tcell {
				continue
			}
			dirties := ""
			for _, st := range storesTo(f, "tcell.cell", "lastMain") {
				if k, ok := constInt(st.Val); ok && k == 0 {
					dirties = "stores the force-dirty marker"
				}
			}
			for _, st := range storesTo(f, "tcell.cell", "lock") {
				if v, ok := constBool(st.Val); ok && !v {
					dirties = "clears a lock"
				}
			}
			for _, fld := range []string{"currMain", "currStyle", "currComb"} {
				if len(storesTo(f, "tcell.cell", fld)) > 0 && dirties == "" {
					dirties = "stores cell content"
				}
			}
			if dirties == "" {
				continue
			}
			raised := false
			for _, st := range storesTo(f, fl.owner, fl.name) {
				if v, ok := constBool(st.Val); ok && v {
					raised = true
				}
			}
			if !raised {
				bad += f.RelString(p.Tcell.Pkg) + " " + dirties + " without raising it; "
			}
		}
		c.Check(bad == "", rule, tname+".draw:cell-loop-gate:"+fl.name, p.pos(draw.Pos()), fmt.Sprintf("the cell loop is skipped unless %s.%s is set: %s", fl.owner, fl.name, bad))
	}
}

// reachesStatically: g is reachable from f through static calls (to the given depth).
func reachesStatically(f, g *ssa.Function, depth int) bool {
	if f == g {
		return true
	}
	if depth == 0 || f == nil || len(f.Blocks) == 0 {
		return false
	}
	hit := false
	eachInstr(f, func(in ssa.Instruction) {
		if cc := callCommon(in); cc != nil && !hit {
			if h := cc.StaticCallee(); h != nil && h.Pkg == f.Pkg && reachesStatically(h, g, depth-1) {
				hit = true
			}
		}
	})
	return hit
}

// checkSynth256Unconditional: NAME-256color for a known base always gets the standard 256-colour
// strings: the block of LookupTerminfo that sets Colors = 256 depends on the name alone (the suffix was
// stripped and a base found), never on what the base entry contains — a base that already counts 256
// colours may still have strings of its own (sun-color).
func checkSynth256Unconditional(c *Ctx, p *Prog, rule string) {
	fn := p.Fn("terminfo:LookupTerminfo")
	if fn == nil {
		c.Undecided(rule, "LookupTerminfo", "-", "not found")
		return
	}
	var readsEntry func(v ssa.Value, d int) string
	readsEntry = func(v ssa.Value, d int) string {
		if d < 0 || v == nil {
			return ""
		}
		if ref, _, ok := loadedField(v); ok && ref.Owner == "terminfo.Terminfo" {
			return ref.Name
		}
		if _, isPhi := v.(*ssa.Phi); isPhi {
			return ""
		}
		if in, ok := v.(ssa.Instruction); ok {
			for _, op := range in.Operands(nil) {
				if *op != nil {
					if s := readsEntry(*op, d-1); s != "" {
						return s
					}
				}
			}
		}
		return ""
	}
	n := 0
	// the store may sit in a helper (`with256Color(t)`): then the guards at its calls count as well
	type site struct {
		st     *ssa.Store
		guards []rawGuard
	}
	var sites []site
	for _, st := range storesTo(fn, "terminfo.Terminfo", "Colors") {
		sites = append(sites, site{st, rawGuardsAt(st.Block())})
	}
	eachInstr(fn, func(in ssa.Instruction) {
		cc := callCommon(in)
		if cc == nil {
			return
		}
		h := cc.StaticCallee()
		if h == nil || h == fn || h.Pkg != p.Terminfo || len(h.Blocks) == 0 {
			return
		}
		for _, st := range storesTo(h, "terminfo.Terminfo", "Colors") {
			sites = append(sites, site{st, append(append([]rawGuard{}, rawGuardsAt(st.Block())...), rawGuardsAt(in.Block())...)})
		}
	})
	for _, s := range sites {
		st := s.st
		if k, ok := constInt(st.Val); !ok || k != 256 {
			continue
		}
		n++
		bad := ""
		for _, g := range s.guards {
			if f := readsEntry(g.Cond, 4); f != "" {
				// the "was anything found" test on the entry pointer itself is not a field read
				bad += "depends on the base entry's " + f + "; "
			}
		}
		c.Check(bad == "", rule, fmt.Sprintf("LookupTerminfo:256-colour-synthesis#%d", n), p.pos(st.Pos()), "the standard 256-colour strings are supplied whenever the -256color suffix was resolved "+bad)
	}
	if n == 0 {
		c.Undecided(rule, "LookupTerminfo:256-colour-synthesis", p.pos(fn.Pos()), "no store of Colors = 256 found")
	}
}

// checkNoReRegistration: what LookupTerminfo returned is never handed back to AddTerminfo: a lookup
// may return a private amended copy (256 colours, direct colour) that still carries the base entry's
// name and aliases; registering it replaces the shared base entry, and what later lookups return then
// depends on which names were looked up before.  Every AddTerminfo argument in the module is followed
// back through phis: none of its sources is a result of terminfo.LookupTerminfo.
func checkNoReRegistration(c *Ctx, p *Prog, rule string) {
	add := p.Fn("terminfo:AddTerminfo")
	lookup := p.Fn("terminfo:LookupTerminfo")
	if add == nil || lookup == nil {
		c.Undecided(rule, "AddTerminfo/LookupTerminfo", "-", "not found")
		return
	}
	n := 0
	for _, f := range p.modFns {
		if f.Pkg == nil || f.Pkg == p.Terminfo {
			continue
		}
		k := 0
		eachInstr(f, func(in ssa.Instruction) {
			cc := callCommon(in)
			if cc == nil || add == nil || cc.StaticCallee() != add || len(cc.Args) != 1 {
				return
			}
			// database packages register composite literals from init: not interesting
			if _, isAlloc := cc.Args[0].(*ssa.Alloc); isAlloc && strings.HasPrefix(f.Name(), "init") {
				return
			}
			n++
			k++
			bad := ""
			for _, src := range append(phiSources(cc.Args[0]), cc.Args[0]) {
				if ex, ok := derefCell(src).(*ssa.Extract); ok {
					if call, isCall := ex.Tuple.(*ssa.Call); isCall && call.Call.StaticCallee() == lookup {
						bad = "registers what terminfo.LookupTerminfo returned at " + p.pos(call.Pos())
					}
				}
			}
			c.Check(bad == "", rule, fmt.Sprintf("%s:AddTerminfo#%d", f.RelString(f.Pkg.Pkg), k), p.pos(in.Pos()), "the entry registered does not come out of a lookup "+bad)
		})
	}
	if n == 0 {
		c.Trivial(rule, "AddTerminfo:outside-the-database", "-", "nothing outside package terminfo and the database packages registers entries")
	}
}

// isDecimalOf: v is the decimal form of x by a standard formatter: strconv.Itoa(x),
// strconv.FormatInt(int64(x), 10), fmt.Sprint(x) or fmt.Sprintf("%d", x).
func isDecimalOf(v ssa.Value, isX func(ssa.Value) bool) bool {
	call, ok := v.(*ssa.Call)
	if !ok {
		return false
	}
	switch calleeName(&call.Call) {
	case "strconv.Itoa":
		return len(call.Call.Args) == 1 && isX(stripConv(call.Call.Args[0]))
	case "strconv.FormatInt":
		if len(call.Call.Args) == 2 && isX(stripConv(call.Call.Args[0])) {
			k, isK := constInt(call.Call.Args[1])
			return isK && k == 10
		}
	}
	return false
}

// checkDecimalOutput: %d writes the decimal form of the number it pops — cursor positions and palette
// indexes go out through it.  The case either hands strconv's decimal form of the popped number to the
// output, or calls a helper of its own; such a helper is decided by constant evaluation (T18) for every
// number from -1000 to 70000 (all screen coordinates, all palette indexes and SGR codes): the bytes it
// writes, through whatever branches it takes, are compared with the decimal form.
func checkDecimalOutput(c *Ctx, p *Prog, rule string) {
	fn, dispatch := tparmDispatch(p)
	key := "op:%d:decimal"
	if fn == nil || dispatch == nil {
		c.Undecided(rule, key, "-", "TParm or its dispatch not found")
		return
	}
	var caseIf *ssa.If
	for _, r := range referrers(dispatch) {
		if bo, ok := r.(*ssa.BinOp); ok && bo.Op == token.EQL {
			if k, isK := constInt(bo.Y); isK && k == 'd' {
				for _, r2 := range referrers(bo) {
					if iff, isIf := r2.(*ssa.If); isIf {
						// the operator switch, not the format-conversion switch further down
						if caseIf == nil || iff.Block().Index < caseIf.Block().Index {
							caseIf = iff
						}
					}
				}
			}
		}
	}
	if caseIf == nil {
		c.Undecided(rule, key, p.pos(fn.Pos()), "no case for %d found")
		return
	}
	body := caseIf.Block().Succs[0]
	isPopped := func(v ssa.Value) bool { return popKind(p, v) == "int" }
	verdict, detail := "", "no output in the case"
	for _, in := range body.Instrs {
		cc := callCommon(in)
		if cc == nil {
			continue
		}
		if arg, isStr := p.outputStringArg(cc); isStr {
			if isDecimalOf(arg, isPopped) {
				verdict, detail = "ok", "the decimal form of the popped number by strconv"
			} else {
				verdict, detail = "fail", "the string written is "+valName(arg)+", not the decimal form of the popped number"
			}
			break
		}
		if _, isB := p.outputByteArg(cc); isB {
			verdict, detail = "undecided", "digits written in place: not evaluated"
			break
		}
		h := cc.StaticCallee()
		if h == nil || h.Pkg != p.Terminfo || len(h.Blocks) == 0 || popKindOfCallee(p, h) {
			continue
		}
		// a helper that gets the popped number
		var par *ssa.Parameter
		for i, a := range cc.Args {
			if isPopped(stripConv(a)) && i < len(h.Params) {
				par = h.Params[i]
			}
		}
		if par == nil {
			continue
		}
		upTo := int64(70000)
		if c.Tier == "thorough" {
			upTo = 2000000
		}
		verdict, detail = evalDecimalHelper(p, h, par, upTo)
		break
	}
	switch verdict {
	case "ok":
		c.OK(rule, key, p.pos(firstPos(body)), detail)
	case "fail":
		c.Fail(rule, key, p.pos(firstPos(body)), detail)
	default:
		c.Undecided(rule, key, p.pos(firstPos(body)), detail)
	}
}

func popKindOfCallee(p *Prog, h *ssa.Function) bool {
	return h.Signature.Recv() != nil && h.Signature.Results().Len() == 2 && types.Identical(h.Signature.Results().At(1).Type(), h.Signature.Recv().Type())
}

// evalDecimalHelper evaluates h with its number parameter set to each value of the domain and
// compares what it writes with the decimal form.
func evalDecimalHelper(p *Prog, h *ssa.Function, par *ssa.Parameter, upTo int64) (string, string) {
	str := func(s string) *cv {
		out := &cv{kind: cvAgg}
		for i := 0; i < len(s); i++ {
			out.elems = append(out.elems, cvI(int64(s[i])))
		}
		return out
	}
	for n := int64(-1000); n <= upTo; n++ {
		var written []byte
		bad := ""
		ce := &constEval{pk: p.pkg("terminfo"), globals: map[*ssa.Global]*cv{}}
		ce.onCall = func(cc *ssa.CallCommon, args []*cv) (*cv, bool) {
			switch calleeName(cc) {
			case "strconv.Itoa":
				if len(args) == 1 && args[0].kind == cvInt {
					return str(strconv.Itoa(int(args[0].i))), true
				}
			case "strconv.FormatInt":
				if len(args) == 2 && args[0].kind == cvInt && args[1].kind == cvInt && args[1].i >= 2 && args[1].i <= 36 {
					return str(strconv.FormatInt(args[0].i, int(args[1].i))), true
				}
			}
			if _, isB := p.outputByteArg(cc); isB {
				if len(args) == 2 && args[1].kind == cvInt {
					written = append(written, byte(args[1].i))
				} else {
					bad = "a byte that is not determined by the number"
				}
				return cvU, true
			}
			if _, isS := p.outputStringArg(cc); isS {
				if len(args) == 2 && args[1].kind == cvAgg {
					for _, e := range args[1].elems {
						if e.kind != cvInt {
							bad = "a string that is not determined by the number"
							break
						}
						written = append(written, byte(e.i))
					}
				} else {
					bad = "a string that is not determined by the number"
				}
				return cvU, true
			}
			return nil, false
		}
		if _, err := ce.call(p, h, map[*ssa.Parameter]*cv{par: cvI(n)}); err != nil {
			return "undecided", fmt.Sprintf("%s could not be evaluated for %d: %v", h.Name(), n, err)
		}
		if bad != "" {
			return "undecided", fmt.Sprintf("%s writes %s (for %d)", h.Name(), bad, n)
		}
		if string(written) != strconv.Itoa(int(n)) {
			return "fail", fmt.Sprintf("%s(%d) writes %q, the decimal form is %q", h.Name(), n, written, strconv.Itoa(int(n)))
		}
	}
	return "ok", fmt.Sprintf("%s evaluated for every number from -1000 to %d: it writes the decimal form", h.Name(), upTo)
}

// checkEmptinessTestMatchesReset: drawCell decides "nothing has been written for this cell yet" (and
// then writes the '?') by looking at the cell's bytes.  A nil test is only right while the bytes are
// reset to nil: a recycled slice (`Bytes[:0]`, make([]byte, 0, n)) is empty but not nil, so a cell that
// was painted before never gets its '?'.  Every nil comparison of the cell's byte accumulator in the
// painter requires that no empty-but-non-nil value is ever stored as a reset; a length test is always
// fine.
func checkEmptinessTestMatchesReset(c *Ctx, p *Prog, rule string) {
	dc := p.Fn("tcell:(*simscreen).drawCell")
	if dc == nil {
		c.Undecided(rule, "simscreen.drawCell", "-", "not found")
		return
	}
	fns := []*ssa.Function{dc}
	if h := transformHost(p, dc); h != dc {
		fns = append(fns, h)
	}
	nilTests, nonNilResets := 0, ""
	for _, f := range fns {
		eachInstr(f, func(in ssa.Instruction) {
			switch x := in.(type) {
			case *ssa.BinOp:
				if (x.Op == token.EQL || x.Op == token.NEQ) && isNilConst(x.Y) && isByteAccumulator(x.X, f, map[ssa.Value]bool{}) {
					if _, isPar := x.X.(*ssa.Parameter); !isPar {
						nilTests++
					} else {
						nilTests++
					}
				}
			case *ssa.Store:
				ref, _, isF := fieldAddrRef(x.Addr)
				if !isF || ref.Owner != "tcell.SimCell" || ref.Name != "Bytes" {
					return
				}
				switch v := x.Val.(type) {
				case *ssa.Slice:
					if k, ok := constInt(v.High); ok && k == 0 {
						nonNilResets += "Bytes is reset to an empty reslice at " + p.pos(x.Pos()) + "; "
					}
				case *ssa.MakeSlice:
					if k, ok := constInt(v.Len); ok && k == 0 {
						nonNilResets += "Bytes is reset to an empty made slice at " + p.pos(x.Pos()) + "; "
					}
				}
			}
		})
	}
	c.Check(nilTests == 0 || nonNilResets == "", rule, "simscreen.drawCell:emptiness-test-matches-reset", p.pos(dc.Pos()), fmt.Sprintf("%d nil test(s) of the cell's bytes; %s", nilTests, nonNilResets))
}

// checkResizeIntoFreshStorage: SetSize carries the overlapping region over into an array of its own.
// Moving the cells within the live array is only right for some orders and some size changes (front to
// back fails as soon as the width grows: a row's cells are overwritten before they are moved), so the
// destination of every cell store in SetSize must be storage made by this call, never the screen's
// current array or a reslice of it.
func checkResizeIntoFreshStorage(c *Ctx, p *Prog, rule string) {
	fn := p.Fn("tcell:(*simscreen).SetSize")
	if fn == nil {
		c.Undecided(rule, "simscreen.SetSize", "-", "not found")
		return
	}
	n, bad := 0, ""
	eachInstr(fn, func(in ssa.Instruction) {
		var dst ssa.Value
		if cc := callCommon(in); cc != nil {
			// a row moved with the builtin copy
			if b, isB := cc.Value.(*ssa.Builtin); isB && b.Name() == "copy" && len(cc.Args) == 2 {
				if sl, isSl := cc.Args[0].Type().Underlying().(*types.Slice); isSl && typeName(sl.Elem()) == "tcell.SimCell" {
					dst = cc.Args[0]
				}
			}
		}
		st, _ := in.(*ssa.Store)
		if st != nil {
			if ia, ok := st.Addr.(*ssa.IndexAddr); ok {
				if el, isPtr := ia.Type().Underlying().(*types.Pointer); isPtr && typeName(el.Elem()) == "tcell.SimCell" {
					dst = ia.X
				}
			}
		}
		if dst == nil {
			return
		}
		n++
		for _, src := range append(phiSources(dst), dst) {
			root := sliceRoot(src)
			if ref, _, isF := loadedField(root); isF && ref.Owner == "tcell.simscreen" {
				bad += "cells are stored into (a reslice of) s." + ref.Name + " at " + p.pos(in.Pos()) + "; "
			}
		}
	})
	c.Check(n > 0 && bad == "", rule, "simscreen.SetSize:overlap-copied-into-fresh-storage", p.pos(fn.Pos()), fmt.Sprintf("%d cell store(s), each into storage made by this call %s", n, bad))
}

// checkClearImpliesInvalidate: the clear flag makes the next pass wipe the whole display before it
// paints; a pass paints dirty cells only, so whoever raises the flag must also invalidate the cell
// buffer on the same path, or everything that was clean disappears.
func checkClearImpliesInvalidate(c *Ctx, p *Prog, rule, tname string) {
	owner := "tcell." + tname
	n := 0
	for _, f := range p.modFns {
		if f.Pkg != p.Tcell || recvTypeName(topFunc(f)) != owner {
			continue
		}
		for _, st := range storesTo(f, owner, "clear") {
			if v, ok := constBool(st.Val); ok && !v {
				continue
			}
			n++
			paired := false
			eachInstr(f, func(in ssa.Instruction) {
				if cc := callCommon(in); cc != nil && strings.HasSuffix(calleeName(cc), "CellBuffer).Invalidate") {
					if instrDominates(st, in) || instrDominates(in, st) {
						paired = true
					}
				}
			})
			c.Check(paired, rule, fmt.Sprintf("%s.%s:clear-with-invalidate#%d", tname, f.Name(), n), p.pos(st.Pos()), "the request to wipe the display comes with cells.Invalidate() on the same path")
		}
	}
	if n == 0 {
		c.Undecided(rule, tname+":clear", "-", "no place raises the clear flag")
	}
}

// checkViewPortPaintsThroughSetContent: a ViewPort reaches its parent only inside its own rectangle
// because everything it paints goes through the parent's SetContent at translated coordinates.  A
// parent operation without coordinates (Fill, Clear) paints the parent's whole window, whatever the
// port's origin or the parent's scroll offset.  Every method the ViewPort invokes on its parent view
// is SetContent or a query (Size).
func checkViewPortPaintsThroughSetContent(c *Ctx, p *Prog, rule string) {
	views := p.Views
	if views == nil {
		c.Undecided(rule, "package views", "-", "not loaded")
		return
	}
	n, bad := 0, ""
	for _, f := range p.modFns {
		if f.Pkg != views || recvTypeName(topFunc(f)) != "views.ViewPort" {
			continue
		}
		eachInstr(f, func(in ssa.Instruction) {
			cc := callCommon(in)
			if cc == nil || !cc.IsInvoke() {
				return
			}
			ref, _, ok := loadedField(cc.Value)
			if !ok || ref.Owner != "views.ViewPort" {
				return
			}
			n++
			switch cc.Method.Name() {
			case "SetContent", "Size":
			default:
				bad += f.Name() + " calls the parent's " + cc.Method.Name() + " at " + p.pos(in.Pos()) + "; "
			}
		})
	}
	c.Check(n >= 2 && bad == "", rule, "ViewPort:paints-through-SetContent-only", "-", fmt.Sprintf("%d calls on the parent view, each SetContent (translated, C20-R2) or Size %s", n, bad))
}

// checkWidePaddingFromMainRune: a wide cell whose rune went out as a narrow substitute is padded with
// a blank; whether it did is a fact about the main rune.  When the test under `width > 1` reads a flag
// that an encoder call reported, every call that can have produced the flag encodes the cell's main
// rune — not a combining rune of the loop that follows (an elided mark would pad a cell whose wide
// rune was written in full: three columns for two).
func checkWidePaddingFromMainRune(c *Ctx, p *Prog, rule string) {
	dc := p.Fn("tcell:(*tScreen).drawCell")
	if dc == nil {
		c.Undecided(rule, "tScreen.drawCell", "-", "not found")
		return
	}
	// the cell's content: GetContent's results
	var mainc, width ssa.Value
	eachInstr(dc, func(in ssa.Instruction) {
		if ex, ok := in.(*ssa.Extract); ok {
			if call, isCall := ex.Tuple.(*ssa.Call); isCall && strings.HasSuffix(calleeName(&call.Call), "CellBuffer).GetContent") {
				switch ex.Index {
				case 0:
					mainc = ex
				case 3:
					width = ex
				}
			}
		}
	})
	if mainc == nil || width == nil {
		c.Undecided(rule, "tScreen.drawCell:wide-padding", p.pos(dc.Pos()), "the cell's rune and width (GetContent) not found")
		return
	}
	isWide := func(g rawGuard) bool {
		bo, ok := g.Cond.(*ssa.BinOp)
		if !ok || !g.Positive {
			return false
		}
		k, isK := constInt(bo.Y)
		isW := false
		for _, src := range append(phiSources(bo.X), derefCell(bo.X)) {
			if src == width {
				isW = true
			}
		}
		return isK && isW && ((bo.Op == token.GTR && k == 1) || (bo.Op == token.GEQ && k == 2))
	}
	n, bad := 0, ""
	seen := map[ssa.Value]bool{}
	for _, b := range dc.Blocks {
		gs := rawGuardsAt(b)
		wide := false
		for _, g := range gs {
			if isWide(g) {
				wide = true
			}
		}
		if !wide {
			continue
		}
		for _, g := range gs {
			cond := g.Cond
			for {
				if u, ok := cond.(*ssa.UnOp); ok && u.Op == token.NOT {
					cond = u.X
					continue
				}
				break
			}
			if seen[cond] {
				continue
			}
			seen[cond] = true
			// the bytes written compared with a constant ("?"): they must be the main rune's bytes, not
			// what the buffer holds after the combining runes were appended to it
			if bo, isBO := cond.(*ssa.BinOp); isBO && (bo.Op == token.EQL || bo.Op == token.NEQ) {
				for _, pair := range [][2]ssa.Value{{bo.X, bo.Y}, {bo.Y, bo.X}} {
					if _, isC := constString(pair[1]); !isC {
						continue
					}
					for _, src := range phiSourcesAll(stripConv(pair[0])) {
						call, isCall := derefCell(src).(*ssa.Call)
						if !isCall {
							continue
						}
						h := call.Call.StaticCallee()
						if h == nil || h.Pkg != p.Tcell {
							continue
						}
						var runeArg ssa.Value
						for i, par := range h.Params {
							if bt, isB := par.Type().Underlying().(*types.Basic); isB && bt.Kind() == types.Int32 && i < len(call.Call.Args) {
								runeArg = call.Call.Args[i]
							}
						}
						if runeArg == nil {
							continue
						}
						n++
						for _, rs := range append(phiSources(runeArg), derefCell(runeArg)) {
							if _, isPhi := rs.(*ssa.Phi); isPhi {
								continue
							}
							if rs != mainc {
								bad += "the bytes compared at " + p.pos(cond.Pos()) + " include the encoding of " + valName(runeArg) + " (" + p.pos(call.Pos()) + "), not of the main rune alone; "
							}
						}
					}
				}
			}
			for _, src := range append(phiSources(cond), cond) {
				ex, ok := derefCell(src).(*ssa.Extract)
				if !ok {
					continue
				}
				call, isCall := ex.Tuple.(*ssa.Call)
				if !isCall {
					continue
				}
				h := call.Call.StaticCallee()
				if h == nil || h.Pkg != p.Tcell {
					continue
				}
				// an encoder call: it takes a rune
				var runeArg ssa.Value
				for i, par := range h.Params {
					if bt, isB := par.Type().Underlying().(*types.Basic); isB && bt.Kind() == types.Int32 && i < len(call.Call.Args) {
						runeArg = call.Call.Args[i]
					}
				}
				if runeArg == nil {
					continue
				}
				n++
				fromMain := true
				for _, rs := range append(phiSources(runeArg), derefCell(runeArg)) {
					if _, isPhi := rs.(*ssa.Phi); isPhi {
						continue
					}
					if rs != mainc {
						fromMain = false
					}
				}
				if !fromMain {
					bad += "the flag tested at " + p.pos(b.Instrs[0].Pos()) + " may come from encoding " + valName(runeArg) + " (" + p.pos(call.Pos()) + "), not the main rune; "
				}
			}
		}
	}
	if n == 0 {
		c.Trivial(rule, "tScreen.drawCell:wide-padding-from-main-rune", p.pos(dc.Pos()), "the padding test under width > 1 reads no flag reported by an encoder call (it looks at the bytes written)")
		return
	}
	c.Check(bad == "", rule, "tScreen.drawCell:wide-padding-from-main-rune", p.pos(dc.Pos()), fmt.Sprintf("%d encoder call(s) can have produced the flag tested under width > 1, each for the main rune %s", n, bad))
}

// evalTColor decides TColor by constant evaluation (T18): for every colour count the database uses
// and a grid of foreground/background indexes (dense from -3 to 40, and the neighbours of every palette
// boundary), the sequence of TParm calls it makes — which capability, which index — is compared with
// the statement: bright colours folded onto the basic eight where Colors == 8, the foreground expanded
// iff 0 <= index < Colors, then the background likewise.  Answers nil when the function cannot be
// evaluated (the symbolic reading of c15TColor is used then), otherwise a map from the rule's keys to
// the first counter-example ("" when the clause held everywhere).
func evalTColor(p *Prog, fn *ssa.Function, dense bool) map[string]string {
	tparm := p.Fn("terminfo:(*Terminfo).TParm")
	named := p.namedType(p.Terminfo, "Terminfo")
	if tparm == nil || named == nil || len(fn.Params) != 3 {
		return nil
	}
	st, ok := named.Underlying().(*types.Struct)
	if !ok {
		return nil
	}
	fieldIdx := map[string]int{}
	for i := 0; i < st.NumFields(); i++ {
		fieldIdx[st.Field(i).Name()] = i
	}
	for _, f := range []string{"Colors", "SetFg", "SetBg"} {
		if _, ok := fieldIdx[f]; !ok {
			return nil
		}
	}
	tag := func(b byte) *cv { return &cv{kind: cvAgg, elems: []*cv{cvI(int64(b))}} }
	var idxs []int64
	hi := int64(40)
	if dense {
		hi = 300 // the thorough tier: every index up to 300 against every other
	}
	for i := int64(-3); i <= hi; i++ {
		idxs = append(idxs, i)
	}
	for _, b := range []int64{87, 88, 89, 100, 254, 255, 256, 257, 300, 1<<24 - 1, 1 << 24, 1<<24 + 1} {
		if b > hi {
			idxs = append(idxs, b)
		}
	}
	res := map[string]string{}
	for _, v := range []string{"fi", "bi"} {
		for _, k := range []string{"TColor:fold-by-8:" + v, "TColor:8-colour-test:" + v, "TColor:" + v + ">7", "TColor:" + v + "<16", "TColor:" + v + "-in-range", "TColor:" + v + ">=0"} {
			res[k] = ""
		}
	}
	res["TColor:TParm(SetFg)"], res["TColor:TParm(SetBg)"] = "", ""
	type emitted struct {
		cap byte
		idx int64
	}
	fold := func(colors, x int64) int64 {
		if colors == 8 && x >= 8 && x < 16 {
			return x - 8
		}
		return x
	}
	note := func(key, w string) {
		if res[key] == "" {
			res[key] = w
		}
	}
	for _, colors := range []int64{0, 1, 2, 8, 16, 88, 256, 1 << 24} {
		for _, fi := range idxs {
			for _, bi := range idxs {
				var got []emitted
				unknown := false
				ce := &constEval{pk: p.pkg("terminfo"), globals: map[*ssa.Global]*cv{}}
				recv := ce.zero(named.Underlying())
				recv.elems[fieldIdx["Colors"]] = cvI(colors)
				recv.elems[fieldIdx["SetFg"]] = tag('F')
				recv.elems[fieldIdx["SetBg"]] = tag('B')
				ce.onCall = func(cc *ssa.CallCommon, args []*cv) (*cv, bool) {
					if cc.StaticCallee() != tparm {
						return nil, false
					}
					if len(args) != 3 || args[1].kind != cvAgg || len(args[1].elems) != 1 || args[1].elems[0].kind != cvInt ||
						args[2].kind != cvAgg || len(args[2].elems) != 1 || args[2].elems[0].kind != cvInt {
						unknown = true
						return cvU, true
					}
					got = append(got, emitted{byte(args[1].elems[0].i), args[2].elems[0].i})
					return cvU, true
				}
				params := map[*ssa.Parameter]*cv{fn.Params[0]: {kind: cvPtr, p: recv}, fn.Params[1]: cvI(fi), fn.Params[2]: cvI(bi)}
				if _, err := ce.call(p, fn, params); err != nil || unknown {
					return nil
				}
				var want []emitted
				if f := fold(colors, fi); f >= 0 && f < colors {
					want = append(want, emitted{'F', f})
				}
				if b := fold(colors, bi); b >= 0 && b < colors {
					want = append(want, emitted{'B', b})
				}
				if fmt.Sprint(got) == fmt.Sprint(want) {
					continue
				}
				w := fmt.Sprintf("Colors=%d fg=%d bg=%d: TParm calls %s, want %s", colors, fi, bi, fmtEmitted(got), fmtEmitted(want))
				// which clause: look at each component on its own
				for _, comp := range []struct {
					v   string
					cap byte
					x   int64
				}{{"fi", 'F', fi}, {"bi", 'B', bi}} {
					var g, wn *emitted
					for i := range got {
						if got[i].cap == comp.cap {
							g = &got[i]
						}
					}
					for i := range want {
						if want[i].cap == comp.cap {
							wn = &want[i]
						}
					}
					switch {
					case g == nil && wn == nil:
					case g != nil && wn != nil && g.idx == wn.idx:
					case g != nil && wn == nil && comp.x < 0:
						note("TColor:"+comp.v+">=0", w)
					case colors == 8 && comp.x >= 8 && comp.x < 16:
						note("TColor:fold-by-8:"+comp.v, w)
					case colors == 8 && comp.x >= 0 && comp.x < 8:
						// a basic colour treated as a bright one
						note("TColor:"+comp.v+">7", w)
					case colors == 8 && comp.x >= 16 && g != nil:
						note("TColor:"+comp.v+"<16", w)
					case colors != 8 && g != nil && g.idx == comp.x-8:
						note("TColor:8-colour-test:"+comp.v, w)
					default:
						note("TColor:"+comp.v+"-in-range", w)
					}
				}
				// order, duplicates, the other component's index
				cap := "TColor:TParm(SetFg)"
				if len(got) > 0 && got[0].cap == 'B' && len(want) > 0 && want[0].cap == 'F' {
					cap = "TColor:TParm(SetBg)"
				}
				clean := true
				for _, v := range res {
					if v == w {
						clean = false
					}
				}
				if clean {
					note(cap, w)
				}
			}
		}
	}
	return res
}

func fmtEmitted[T any](es []T) string {
	if len(es) == 0 {
		return "none"
	}
	s := fmt.Sprint(es)
	s = strings.ReplaceAll(s, "{70 ", "(SetFg, ")
	s = strings.ReplaceAll(s, "{66 ", "(SetBg, ")
	return strings.ReplaceAll(s, "}", ")")
}

// checkFiniSafeBeforeInit: Fini must be callable on a screen whose Init failed (a deferred Fini after
// `if err := s.Init(); err != nil` is ordinary code).  Some fields only exist once Init has got far
// enough: the quit channel, possibly the Tty.  On the shutdown path (Fini and what it calls), closing
// such a channel or calling a method on such an interface value must sit behind a non-nil test of that
// field, or behind the running flag (which only a completed engage sets).  The simulation screen has
// that test; the terminfo screen must have it too.
func checkFiniSafeBeforeInit(c *Ctx, p *Prog, rule, tname string) {
	owner := "tcell." + tname
	initFn := p.Fn("tcell:(*" + tname + ").Init")
	fini := p.Fn("tcell:(*" + tname + ").Fini")
	if initFn == nil || fini == nil {
		c.Undecided(rule, tname+":Fini-before-Init", "-", "Init or Fini not found")
		return
	}
	closure := func(root *ssa.Function) []*ssa.Function {
		seen := map[*ssa.Function]bool{}
		var out []*ssa.Function
		var walk func(f *ssa.Function)
		walk = func(f *ssa.Function) {
			if f == nil || seen[f] || len(f.Blocks) == 0 {
				return
			}
			if f.Pkg != p.Tcell && !(f.Pkg == nil && strings.HasSuffix(f.Name(), "$bound")) {
				return // (the wrapper of a method value, `t.finish` handed to Once.Do, has no package)
			}
			seen[f] = true
			out = append(out, f)
			eachInstr(f, func(in ssa.Instruction) {
				if _, isGo := in.(*ssa.Go); isGo {
					return
				}
				if cc := callCommon(in); cc != nil {
					walk(cc.StaticCallee())
					// a method value handed to sync.Once.Do and the like
					for _, a := range cc.Args {
						if mc, ok := a.(*ssa.MakeClosure); ok {
							if fn, isFn := mc.Fn.(*ssa.Function); isFn {
								walk(fn)
							}
						}
					}
				}
			})
		}
		walk(root)
		return out
	}
	// fields that come into being during Init
	made := map[string]bool{}
	for _, f := range closure(initFn) {
		eachInstr(f, func(in ssa.Instruction) {
			if st, ok := in.(*ssa.Store); ok {
				if ref, _, isF := fieldAddrRef(st.Addr); isF && ref.Owner == owner {
					switch st.Val.Type().Underlying().(type) {
					case *types.Chan, *types.Interface:
						made[ref.Name] = true
					case *types.Pointer:
						// an object Init makes (the escape timer): a method call on it or a use of one
						// of its fields dereferences nil before Init
						if _, isCall := st.Val.(*ssa.Call); isCall {
							made[ref.Name] = true
						}
					}
				}
			}
		})
	}
	n, bad := 0, ""
	for _, f := range closure(fini) {
		eachInstr(f, func(in ssa.Instruction) {
			cc := callCommon(in)
			var subject ssa.Value
			what := ""
			if cc == nil {
				// a field of the object (`t.keytimer.C`)
				if fa, isFA := in.(*ssa.FieldAddr); isFA {
					if _, isPtr := fa.X.Type().Underlying().(*types.Pointer); isPtr {
						if r0, _, ok0 := loadedField(derefCell(fa.X)); ok0 && r0.Owner == owner {
							subject, what = fa.X, "use of a field of"
						}
					}
				}
				if subject == nil {
					return
				}
			} else if b, isB := cc.Value.(*ssa.Builtin); isB && b.Name() == "close" && len(cc.Args) == 1 {
				subject, what = cc.Args[0], "close of"
			} else if cc.IsInvoke() {
				subject, what = cc.Value, "call of "+cc.Method.Name()+" on"
			} else if h := cc.StaticCallee(); h != nil && h.Signature.Recv() != nil && len(cc.Args) > 0 {
				if _, isPtr := cc.Args[0].Type().Underlying().(*types.Pointer); isPtr {
					subject, what = cc.Args[0], "call of "+h.Name()+" on"
				}
			}
			if subject == nil {
				return
			}
			// through a local copy (stopQ := t.stopQ)
			ref, _, isF := loadedField(derefCell(subject))
			if !isF || ref.Owner != owner || !made[ref.Name] {
				return
			}
			n++
			guarded := false
			gs := rawGuardsAt(in.Block())
			// a function literal runs where it was made (`if s.quit != nil { s.finiOnce.Do(func() { close(s.quit) }) }`)
			if par := f.Parent(); par != nil {
				eachInstr(par, func(pi ssa.Instruction) {
					if mc, ok := pi.(*ssa.MakeClosure); ok && mc.Fn == ssa.Value(f) {
						gs = append(gs, rawGuardsAt(pi.Block())...)
					}
				})
			}
			for _, g := range gs {
				cond, pos := g.Cond, g.Positive
				for {
					if u, ok := cond.(*ssa.UnOp); ok && u.Op == token.NOT {
						cond, pos = u.X, !pos
						continue
					}
					break
				}
				if r2, _, ok := loadedField(cond); ok && r2.Owner == owner && r2.Name == "running" && pos {
					guarded = true
				}
				if bo, ok := cond.(*ssa.BinOp); ok && isNilConst(bo.Y) {
					if r2, _, ok2 := loadedField(bo.X); ok2 && r2 == ref && ((bo.Op == token.NEQ && pos) || (bo.Op == token.EQL && !pos)) {
						guarded = true
					}
				}
			}
			// … the running test made by a boolean helper (`if !t.stopLoops() { return }`, which answers
			// true only where it found the screen running)
			if !guarded {
				for _, a := range guardsAt(in.Block()) {
					if strings.HasSuffix(a.L, ".running") && ((a.Op == "==" && a.R == "true") || (a.Op == "!=" && a.R == "false")) {
						guarded = true
					}
				}
			}
			// … or the function makes the channel itself where it finds none:
			// `if t.quit == nil { t.quit = make(chan …) }` before the use
			if !guarded {
				for _, st := range storesTo(f, owner, ref.Name) {
					if _, isMake := st.Val.(*ssa.MakeChan); !isMake {
						continue
					}
					for _, blk := range f.Blocks {
						if len(blk.Instrs) == 0 {
							continue
						}
						iff, isIf := blk.Instrs[len(blk.Instrs)-1].(*ssa.If)
						if !isIf || !blk.Dominates(in.Block()) || blk.Succs[0] != st.Block() {
							continue
						}
						bo, isBO := iff.Cond.(*ssa.BinOp)
						if !isBO || bo.Op != token.EQL || !isNilConst(bo.Y) {
							continue
						}
						// the then-branch is the store and falls into what follows the if
						if r2, _, ok2 := loadedField(bo.X); ok2 && r2 == ref && len(st.Block().Succs) == 1 && st.Block().Succs[0] == blk.Succs[1] && blk.Succs[1].Dominates(in.Block()) {
							guarded = true
						}
					}
				}
			}
			if !guarded {
				bad += fmt.Sprintf("%s t.%s in %s (%s) runs whether or not Init got far enough to make it; ", what, ref.Name, f.Name(), p.pos(in.Pos()))
			}
		})
	}
	c.Check(n > 0 && bad == "", rule, tname+":Fini-before-Init", p.pos(fini.Pos()), fmt.Sprintf("%d use(s) on the shutdown path of channels and interfaces that Init creates, each behind a non-nil test or the running flag %s", n, bad))
}

// checkStyleChangeStartsFromReset: when drawCell changes the terminal's style it first takes everything
// away (AttrOff) and then builds the new style up: attributes and the underline colour can only be
// removed by the reset, so every colour selection and every attribute switch of the style-change
// branch — in drawCell or in the helpers it calls for them — must be dominated by an emission of
// AttrOff.  A reset that is only sent "when something has to go away" forgets what the attribute mask
// does not record (underline colour, the reverse video sendFgBg derives on monochrome terminals).
func checkStyleChangeStartsFromReset(c *Ctx, p *Prog, rule string) {
	dc := p.Fn("tcell:(*tScreen).drawCell")
	if dc == nil {
		c.Undecided(rule, "tScreen.drawCell", "-", "not found")
		return
	}
	building := map[string]bool{"SetFg": true, "SetBg": true, "SetFgBg": true, "SetFgRGB": true, "SetBgRGB": true, "SetFgBgRGB": true,
		"Bold": true, "Underline": true, "Reverse": true, "Blink": true, "Dim": true, "Italic": true, "StrikeThrough": true,
		"DoubleUnderline": true, "CurlyUnderline": true, "DottedUnderline": true, "DashedUnderline": true, "UnderlineColor": true, "UnderlineColorRGB": true}
	fieldOf := func(in ssa.Instruction) string {
		cc := callCommon(in)
		if cc == nil {
			return ""
		}
		for _, a := range cc.Args {
			if ref, _, ok := loadedField(a); ok && ref.Owner == "terminfo.Terminfo" {
				return ref.Name
			}
		}
		return ""
	}
	// the function that switches the style: drawCell itself, or the helper it calls for it
	// (`t.sendStyle(style)`): the one that emits AttrOff directly
	host := dc
	direct := func(f *ssa.Function) bool {
		found := false
		eachInstr(f, func(in ssa.Instruction) {
			if fieldOf(in) == "AttrOff" {
				found = true
			}
		})
		return found
	}
	if !direct(dc) {
		eachInstr(dc, func(in ssa.Instruction) {
			if cc := callCommon(in); cc != nil {
				if h := cc.StaticCallee(); h != nil && h.Pkg == p.Tcell && len(h.Blocks) > 0 && host == dc && direct(h) {
					host = h
				}
			}
		})
	}
	var resets []ssa.Instruction
	type em struct {
		anchor ssa.Instruction
		field  string
	}
	var ems []em
	for _, d := range deepInstrs(p, host, 1, nil) {
		f := fieldOf(d.in)
		switch {
		case f == "AttrOff" && len(d.chain) == 0:
			resets = append(resets, d.in)
		case building[f]:
			ems = append(ems, em{d.anchor, f})
		}
	}
	if len(resets) == 0 || len(ems) == 0 {
		c.Undecided(rule, "tScreen.drawCell:style-change-starts-from-reset", p.pos(dc.Pos()), fmt.Sprintf("%d emissions of AttrOff, %d style-building emissions found", len(resets), len(ems)))
		return
	}
	bad := map[string]bool{}
	for _, e := range ems {
		ok := false
		for _, r := range resets {
			if instrDominates(r, e.anchor) {
				ok = true
			}
		}
		if !ok {
			bad[e.field+"@"+p.pos(e.anchor.Pos())] = true
		}
	}
	c.Check(len(bad) == 0, rule, "tScreen.drawCell:style-change-starts-from-reset", p.pos(dc.Pos()), fmt.Sprintf("%d style-building emission(s), each after the attribute reset on every path %v", len(ems), sortedKeys(bad)))
}

// checkKeyMatcherUsesTableEntry: the key a matched sequence decodes to is the key of its table entry —
// for a one-byte sequence as for any other (wy50/wy60 bind ^J ^K ^L ^^ to the cursor keys and Home).
// Every NewEventKey call of the key matcher gets, as its key, the `key` field of the matched tKeyCode,
// on every path (a constant such as KeyRune among the sources hands the byte to NewEventKey's own
// naming instead).
func checkKeyMatcherUsesTableEntry(c *Ctx, p *Prog, rule string) {
	fn := p.Fn("tcell:(*tScreen).parseFunctionKey")
	if fn == nil {
		c.Undecided(rule, "parseFunctionKey", "-", "not found")
		return
	}
	n, bad := 0, ""
	for _, d := range deepInstrs(p, fn, 1, nil) {
		cc := callCommon(d.in)
		if cc == nil || !strings.HasSuffix(calleeName(cc), "NewEventKey") || len(cc.Args) != 3 {
			continue
		}
		n++
		key := d.bindVal(cc.Args[0])
		// every source, constants included
		var srcs []ssa.Value
		seenV := map[ssa.Value]bool{}
		var walk func(v ssa.Value)
		walk = func(v ssa.Value) {
			if seenV[v] {
				return
			}
			seenV[v] = true
			if phi, isPhi := v.(*ssa.Phi); isPhi {
				for _, e := range phi.Edges {
					walk(e)
				}
				return
			}
			srcs = append(srcs, v)
		}
		walk(key)
		for _, src := range srcs {
			if _, isPhi := src.(*ssa.Phi); isPhi {
				continue
			}
			src = d.bindVal(src)
			if ref, _, ok := loadedField(src); ok && ref.Owner == "tcell.tKeyCode" && ref.Name == "key" {
				continue
			}
			bad += "the key handed to NewEventKey at " + p.pos(d.in.Pos()) + " can be " + valName(src) + ", not the table entry's key; "
		}
	}
	c.Check(n > 0 && bad == "", rule, "parseFunctionKey:event-from-table-entry", p.pos(fn.Pos()), fmt.Sprintf("%d key event(s) built, each with the matched entry's key %s", n, bad))
}

// checkHandBackSelectsNoColours: what Suspend and Fini write takes the application's modes away; nothing
// on that path (disengage and the helpers it calls, two levels) selects a colour or switches an
// attribute on — a helper shared with drawing (clearScreen re-selects the screen's default colours)
// would leave them behind after the reset.
func checkHandBackSelectsNoColours(c *Ctx, p *Prog, rule string) {
	dis := p.Fn("tcell:(*tScreen).disengage")
	if dis == nil {
		c.Undecided(rule, "disengage", "-", "not found")
		return
	}
	building := map[string]bool{"SetFg": true, "SetBg": true, "SetFgBg": true, "SetFgRGB": true, "SetBgRGB": true, "SetFgBgRGB": true,
		"Bold": true, "Underline": true, "Reverse": true, "Blink": true, "Dim": true, "Italic": true, "StrikeThrough": true,
		"DoubleUnderline": true, "CurlyUnderline": true, "DottedUnderline": true, "DashedUnderline": true, "UnderlineColor": true, "UnderlineColorRGB": true}
	n, bad := 0, ""
	for _, d := range deepInstrs(p, dis, 2, nil) {
		cc := callCommon(d.in)
		if cc == nil {
			continue
		}
		for _, a := range cc.Args {
			if ref, _, ok := loadedField(a); ok && ref.Owner == "terminfo.Terminfo" {
				n++
				if building[ref.Name] {
					via := ""
					if len(d.chain) > 0 {
						if h := callCommon(d.chain[0]).StaticCallee(); h != nil {
							via = " (through " + h.Name() + ", called at " + p.pos(d.chain[0].Pos()) + ")"
						}
					}
					bad += "emits " + ref.Name + " at " + p.pos(d.in.Pos()) + via + "; "
				}
			}
		}
	}
	c.Check(n >= 5 && bad == "", rule, "disengage:selects-no-colours", p.pos(dis.Pos()), fmt.Sprintf("%d capability emissions on the hand-back path, none selecting a colour or an attribute %s", n, bad))
}

// checkReportedSizeStoredWithEvent: t.w and t.h are the size the application was last told.  They are
// stored only where the resize event is posted (the comparison with them is what decides whether an
// event is due): a store elsewhere — keeping "the drawing bounds in step" after Resume — makes the
// next resize() see nothing new and the event for a window that changed while the terminal was handed
// back is never delivered.
func checkReportedSizeStoredWithEvent(c *Ctx, p *Prog, rule, tname string) {
	owner := "tcell." + tname
	n, bad := 0, ""
	for _, f := range p.modFns {
		if f.Pkg != p.Tcell {
			continue
		}
		var stores []*ssa.Store
		stores = append(stores, storesTo(f, owner, "w")...)
		stores = append(stores, storesTo(f, owner, "h")...)
		if len(stores) == 0 {
			continue
		}
		// the posts of this function: select states / sends on the event queue
		var posts []ssa.Instruction
		eachInstr(f, func(in ssa.Instruction) {
			switch x := in.(type) {
			case *ssa.Select:
				for _, st := range x.States {
					if st.Dir == types.SendOnly {
						if ref, _, ok := loadedField(st.Chan); ok && ref.Owner == owner && ref.Name == "eventQ" {
							posts = append(posts, in)
						}
					}
				}
			case *ssa.Send:
				if ref, _, ok := loadedField(x.Chan); ok && ref.Owner == owner && ref.Name == "eventQ" {
					posts = append(posts, in)
				}
			}
		})
		for _, st := range stores {
			n++
			ok := false
			for _, po := range posts {
				if instrDominates(st, po) {
					ok = true
				}
			}
			if !ok {
				bad += fmt.Sprintf("%s stores the reported size at %s without posting the resize event; ", f.Name(), p.pos(st.Pos()))
			}
		}
	}
	c.Check(n >= 2 && bad == "", rule, tname+":reported-size-stored-with-the-event", "-", fmt.Sprintf("%d store(s) of the size last reported, each followed by the post of the resize event %s", n, bad))
}

// checkOperandsConsumedAlike: within one operator of the parameter language every way of completing it
// takes the same number of operands off the stack.  Push calls of TParm are grouped by the first pop
// of their round (the pop whose stack is the loop-carried one); in a group every push must sit on a
// chain of the same number of pops.  A zero-divisor shortcut that pushes its 0 before the dividend was
// popped leaves the dividend under the result.
func checkOperandsConsumedAlike(c *Ctx, p *Prog, rule string) {
	fn := p.Fn("terminfo:(*Terminfo).TParm")
	if fn == nil {
		c.Undecided(rule, "TParm", "-", "not found")
		return
	}
	isPop := func(v ssa.Value) (*ssa.Call, bool) {
		ex, ok := v.(*ssa.Extract)
		if !ok || ex.Index != 1 {
			return nil, false
		}
		call, ok := ex.Tuple.(*ssa.Call)
		if !ok {
			return nil, false
		}
		h := call.Call.StaticCallee()
		if h == nil || h.Pkg != p.Terminfo || !popKindOfCallee(p, h) {
			return nil, false
		}
		return call, true
	}
	// chains(S): for every way S came about (through phis inside the round), the pops from the
	// round's first pop to S
	type chain struct {
		first *ssa.Call
		n     int
	}
	var chainsOf func(s ssa.Value, depth int, seen map[ssa.Value]bool) []chain
	chainsOf = func(s ssa.Value, depth int, seen map[ssa.Value]bool) []chain {
		if seen[s] || depth > 12 {
			return nil
		}
		seen[s] = true
		defer delete(seen, s)
		if call, ok := isPop(s); ok {
			below := chainsOf(call.Call.Args[0], depth+1, seen)
			if len(below) == 0 {
				return []chain{{call, 1}}
			}
			var out []chain
			for _, b := range below {
				if b.first == nil {
					out = append(out, chain{call, 1})
				} else {
					out = append(out, chain{b.first, b.n + 1})
				}
			}
			return out
		}
		if phi, ok := s.(*ssa.Phi); ok {
			// the loop-carried stack: the start of a round
			if loopsOf(fn)[phi.Block()] != nil {
				return []chain{{nil, 0}}
			}
			var out []chain
			for _, e := range phi.Edges {
				out = append(out, chainsOf(e, depth+1, seen)...)
			}
			return out
		}
		return []chain{{nil, 0}}
	}
	groups := map[*ssa.Call]map[int][]string{}
	nPush := 0
	eachInstr(fn, func(in ssa.Instruction) {
		cc := callCommon(in)
		if cc == nil {
			return
		}
		h := cc.StaticCallee()
		if h == nil || h.Pkg != p.Terminfo || h.Signature.Recv() == nil || h.Signature.Params().Len() != 1 || h.Signature.Results().Len() != 1 ||
			!types.Identical(h.Signature.Results().At(0).Type(), h.Signature.Recv().Type()) {
			return
		}
		nPush++
		for _, ch := range chainsOf(cc.Args[0], 0, map[ssa.Value]bool{}) {
			if ch.first == nil {
				continue
			}
			if groups[ch.first] == nil {
				groups[ch.first] = map[int][]string{}
			}
			groups[ch.first][ch.n] = append(groups[ch.first][ch.n], p.pos(in.Pos()))
		}
	})
	bad := ""
	for first, byN := range groups {
		if len(byN) > 1 {
			bad += fmt.Sprintf("the operator that starts with the pop at %s pushes after a different number of pops on different paths: %v; ", p.pos(first.Pos()), byN)
		}
	}
	c.Check(nPush >= 10 && bad == "", rule, "TParm:operands-consumed-alike", p.pos(fn.Pos()), fmt.Sprintf("%d pushes in %d operator rounds, each round consuming the same number of operands on every path %s", nPush, len(groups), bad))
}

// checkWideDirtyIndependentOfMarker: replacing a wide rune dirties every column it covered, whatever
// the state of the base cell's own dirty marker: the neighbour-dirtying calls of SetContent and Fill
// are not control-dependent on lastMain (a base cell that is already marked dirty says nothing about
// its neighbours: SetDirty(x, y, true) and UnlockCell mark one cell).
func checkWideDirtyIndependentOfMarker(c *Ctx, p *Prog, rule string) {
	n, bad := 0, ""
	for _, name := range []string{"SetContent", "Fill"} {
		fn := p.Fn("tcell:(*CellBuffer)." + name)
		if fn == nil {
			c.Undecided(rule, name, "-", "not found")
			continue
		}
		for _, d := range deepInstrs(p, fn, 1, func(_ ssa.Instruction, callee *ssa.Function) bool {
			// (into helpers of the cell buffer, not into SetDirty itself)
			return recvTypeName(callee) == "tcell.CellBuffer" && callee.Name() != "SetDirty"
		}) {
			in, anchor := d.in, d.anchor
			cc := callCommon(in)
			isSite := false
			if cc != nil && strings.HasSuffix(calleeName(cc), "CellBuffer).SetDirty") && len(cc.Args) == 4 {
				if v, ok := constBool(cc.Args[3]); !ok || v {
					isSite = true
				}
			}
			if st, ok := in.(*ssa.Store); ok {
				if ref, _, isF := fieldAddrRef(st.Addr); isF && ref.Owner == "tcell.cell" && ref.Name == "lastMain" {
					if k, isK := constInt(st.Val); isK && k == 0 {
						isSite = true
					}
				}
			}
			if !isSite {
				continue
			}
			n++
			gs := rawGuardsAt(in.Block())
			if anchor != in {
				gs = append(gs, rawGuardsAt(anchor.Block())...)
			}
			for _, g := range gs {
				if mentionsField(g.Cond, "tcell.cell", "lastMain", 4) {
					bad += name + ": the neighbour is dirtied at " + p.pos(in.Pos()) + " only depending on the base cell's dirty marker; "
				}
			}
		}
	}
	c.Check(n >= 2 && bad == "", rule, "wide-rune:neighbours-dirtied-whatever-the-marker", "-", fmt.Sprintf("%d neighbour-dirtying site(s) in SetContent and Fill, none behind a test of lastMain %s", n, bad))
}

// checkEventPayloadOwnsMemory: an event leaves the library's goroutines and is read by the application
// without any lock: the bytes a clipboard event carries must be memory made for it (a fresh slice),
// never a window into the input buffer, which the main loop resets and refills with the next input.
// Every argument of NewEventClipboard in the input parsers (and their helpers, with the helper's
// parameters bound to the caller's values) has a made slice as its root.
func checkEventPayloadOwnsMemory(c *Ctx, p *Prog, rule string) {
	n, bad := 0, ""
	for _, pi := range inputParsers(p) {
		for _, d := range deepInstrs(p, pi.fn, 1, nil) {
			cc := callCommon(d.in)
			if cc == nil || !strings.HasSuffix(calleeName(cc), "NewEventClipboard") || len(cc.Args) != 1 {
				continue
			}
			n++
			root := sliceRoot(d.bindVal(sliceRoot(cc.Args[0])))
			root = sliceRoot(d.bindVal(root))
			switch x := root.(type) {
			case *ssa.MakeSlice:
				continue
			case *ssa.Call:
				bad += fmt.Sprintf("the payload at %s is a window into %s; ", p.pos(d.in.Pos()), calleeName(&x.Call))
			default:
				bad += fmt.Sprintf("the payload at %s is %s, not memory made for the event; ", p.pos(d.in.Pos()), valName(root))
			}
		}
	}
	c.Check(n > 0 && bad == "", rule, "clipboard-event:payload-owns-its-memory", "-", fmt.Sprintf("%d clipboard event(s) built by the parsers, each around a slice made for it %s", n, bad))
}

// checkRegistrationUnconditional: every shipped entry registers itself through AddTerminfo; the stores
// into the registry are not control-dependent on what the entry contains (an entry judged "unusable" —
// vt52 has no attribute reset — would silently stop resolving).
func checkRegistrationUnconditional(c *Ctx, p *Prog, rule string) {
	add := p.Fn("terminfo:AddTerminfo")
	if add == nil {
		c.Undecided(rule, "AddTerminfo", "-", "not found")
		return
	}
	var reads func(v ssa.Value, d int) string
	reads = func(v ssa.Value, d int) string {
		if d < 0 || v == nil {
			return ""
		}
		if ref, _, ok := loadedField(v); ok && ref.Owner == "terminfo.Terminfo" && ref.Name != "Aliases" {
			return ref.Name
		}
		if _, isPhi := v.(*ssa.Phi); isPhi {
			return ""
		}
		if call, isCall := v.(*ssa.Call); isCall {
			// a predicate over the entry (`t.usable()`): what it reads counts
			if h := call.Call.StaticCallee(); h != nil && h.Pkg == p.Terminfo && len(h.Blocks) > 0 && d > 0 {
				found := ""
				eachInstr(h, func(in ssa.Instruction) {
					for _, op := range in.Operands(nil) {
						if *op != nil && found == "" {
							if ref, _, ok := loadedField(*op); ok && ref.Owner == "terminfo.Terminfo" && ref.Name != "Aliases" {
								found = ref.Name + " (in " + h.Name() + ")"
							}
						}
					}
				})
				if found != "" {
					return found
				}
			}
		}
		if in, ok := v.(ssa.Instruction); ok {
			for _, op := range in.Operands(nil) {
				if *op != nil {
					if s := reads(*op, d-1); s != "" {
						return s
					}
				}
			}
		}
		return ""
	}
	n, bad := 0, ""
	eachInstr(add, func(in ssa.Instruction) {
		if _, ok := in.(*ssa.MapUpdate); !ok {
			return
		}
		n++
		for _, g := range rawGuardsAt(in.Block()) {
			if f := reads(g.Cond, 3); f != "" {
				bad += "the registration at " + p.pos(in.Pos()) + " depends on the entry's " + f + "; "
			}
		}
	})
	c.Check(n > 0 && bad == "", rule, "AddTerminfo:registers-whatever-the-entry-holds", p.pos(add.Pos()), fmt.Sprintf("%d store(s) into the registry, none behind a test of the entry's contents %s", n, bad))
}

// checkColorNameLookupUnconditional: GetColor resolves every name of the table: the lookup in
// ColorNames is reached for every argument that is not of the "#rrggbb" form — no test of the name's
// length (other than the 7 of the hex form) or of anything else stands before it.
func checkColorNameLookupUnconditional(c *Ctx, p *Prog, rule string) {
	fn := p.Fn("tcell:GetColor")
	if fn == nil || len(fn.Params) != 1 {
		c.Undecided(rule, "GetColor", "-", "not found")
		return
	}
	name := fn.Params[0]
	n, bad := 0, ""
	for _, d := range deepInstrs(p, fn, 1, nil) {
		lk, ok := d.in.(*ssa.Lookup)
		if !ok {
			continue
		}
		u, isU := lk.X.(*ssa.UnOp)
		if !isU {
			continue
		}
		g, isG := u.X.(*ssa.Global)
		if !isG || g.Name() != "ColorNames" {
			continue
		}
		n++
		for _, gd := range d.rawGuards() {
			bo, isBO := gd.Cond.(*ssa.BinOp)
			if !isBO {
				continue
			}
			// len(name) compared with a constant other than 7
			if call, isCall := bo.X.(*ssa.Call); isCall {
				if b, isB := call.Call.Value.(*ssa.Builtin); isB && b.Name() == "len" && len(call.Call.Args) == 1 && d.bindVal(call.Call.Args[0]) == ssa.Value(name) {
					if k, isK := constInt(bo.Y); !isK || k != 7 {
						bad += "the name lookup at " + p.pos(lk.Pos()) + " is behind a test of the name's length against " + valName(bo.Y) + "; "
					}
				}
			}
		}
	}
	c.Check(n > 0 && bad == "", rule, "GetColor:every-name-looked-up", p.pos(fn.Pos()), fmt.Sprintf("%d lookup(s) in ColorNames, reached whatever the length of the name %s", n, bad))
}

// checkWebMouseAlwaysPosts: a mouse callback of the page becomes an event unless the mode it belongs
// to is switched off: a return of onMouseEvent that no postEvent precedes may depend on the mouse
// flags and on the callback's arguments, not on anything the screen remembers about earlier reports.
func checkWebMouseAlwaysPosts(c *Ctx, p *Prog, rule string) {
	fn := p.Fn("tcell:(*wScreen).onMouseEvent")
	if fn == nil {
		c.Undecided(rule, "wScreen.onMouseEvent", "-", "not found")
		return
	}
	var posts []ssa.Instruction
	eachInstr(fn, func(in ssa.Instruction) {
		if cc := callCommon(in); cc != nil && strings.HasSuffix(calleeName(cc), "wScreen).postEvent") {
			posts = append(posts, in)
		}
	})
	n, bad := 0, ""
	for _, r := range returnsOf(fn) {
		posted := false
		for _, po := range posts {
			if instrDominates(po, r) {
				posted = true
			}
		}
		if posted {
			continue
		}
		n++
		for _, g := range rawGuardsAt(r.Block()) {
			for _, f := range wFieldsIn(g.Cond, 5) {
				if f != "mouseFlags" {
					bad += "the report is dropped at " + p.pos(r.Pos()) + " depending on t." + f + "; "
				}
			}
		}
	}
	c.Check(len(posts) > 0 && bad == "", rule, "onMouseEvent:dropped-only-by-mode", p.pos(fn.Pos()), fmt.Sprintf("%d return(s) without an event, each depending on the mouse flags and the callback's arguments only %s", n, bad))
}

// wFieldsIn: the wScreen fields v is computed from (loads, through phis of locals copied under the lock).
func wFieldsIn(v ssa.Value, depth int) []string {
	var out []string
	seen := map[ssa.Value]bool{}
	var walk func(v ssa.Value, d int)
	walk = func(v ssa.Value, d int) {
		if d < 0 || v == nil || seen[v] {
			return
		}
		seen[v] = true
		if ref, _, ok := loadedField(v); ok && ref.Owner == "tcell.wScreen" {
			out = append(out, ref.Name)
			return
		}
		if in, ok := v.(ssa.Instruction); ok {
			for _, op := range in.Operands(nil) {
				if *op != nil {
					walk(*op, d-1)
				}
			}
		}
	}
	walk(v, depth)
	return out
}

package main

// T12 — bit provenance ("known bits" with copy tracking).
//
// A forward dataflow analysis over go/ssa for loop-free integer code.  The abstract value of an
// integer is one abstract bit per position:
//
//	0, 1          the bit is that constant on every execution
//	sym.i         the bit is a copy of bit i of input symbol sym (a parameter of the entry function,
//	              or the result of a call the analysis does not look into)
//	T (top)       anything
//
// Transfer functions are the obvious ones for & | ^ &^ << >> (constant shift counts), conversions
// (truncate, zero- or sign-extend), comparisons (decided only where the known bits decide them) and
// calls of module functions (evaluated in place, bounded depth).  A conditional branch whose condition
// is decided is followed on that edge only; otherwise both successors are evaluated and values are
// joined at phis and at the returns (join of different bits = T).  Functions with a back edge are not
// evaluated (every result is T).  Nothing is executed and no path is enumerated or handed to a solver:
// it is a dataflow over a finite lattice per bit, and because the colour conversions are pure bit
// shuffling it decides their round-trips for all 2^24 values at once.

import (
	"fmt"
	"go/constant"
	"go/token"
	"go/types"
	"strings"

	"golang.org/x/tools/go/ssa"
)

type bitKind uint8

const (
	bTop bitKind = iota
	bZero
	bOne
	bSym
)

type abit struct {
	k   bitKind
	sym string
	idx int
}

type bv struct {
	w      int  // width in bits (1 for bool)
	signed bool // for extension and ordering
	b      [64]abit
}

func (a abit) String() string {
	switch a.k {
	case bZero:
		return "0"
	case bOne:
		return "1"
	case bSym:
		return fmt.Sprintf("%s.%d", a.sym, a.idx)
	}
	return "T"
}

// String renders runs: "[63..34]=0 33=1 32=1 [31..24]=0 [23..0]=v.23..v.0".
func (v bv) String() string {
	var parts []string
	i := v.w - 1
	for i >= 0 {
		j := i
		switch v.b[i].k {
		case bSym:
			for j-1 >= 0 && v.b[j-1].k == bSym && v.b[j-1].sym == v.b[i].sym && v.b[j-1].idx == v.b[j].idx-1 {
				j--
			}
			if i == j {
				parts = append(parts, fmt.Sprintf("%d=%s", i, v.b[i]))
			} else {
				parts = append(parts, fmt.Sprintf("[%d..%d]=%s.%d..%d", i, j, v.b[i].sym, v.b[i].idx, v.b[j].idx))
			}
		default:
			for j-1 >= 0 && v.b[j-1] == v.b[i] {
				j--
			}
			if i == j {
				parts = append(parts, fmt.Sprintf("%d=%s", i, v.b[i]))
			} else {
				parts = append(parts, fmt.Sprintf("[%d..%d]=%s", i, j, v.b[i]))
			}
		}
		i = j - 1
	}
	return strings.Join(parts, " ")
}

func bvTop(w int, signed bool) bv { return bv{w: w, signed: signed} }

func bvConst(x uint64, w int, signed bool) bv {
	v := bv{w: w, signed: signed}
	for i := 0; i < w; i++ {
		if x>>uint(i)&1 == 1 {
			v.b[i] = abit{k: bOne}
		} else {
			v.b[i] = abit{k: bZero}
		}
	}
	return v
}

// bvInput: symbol sym of width w whose low `free` bits are unconstrained and whose other bits are 0.
func bvInput(sym string, w int, signed bool, free int) bv {
	v := bv{w: w, signed: signed}
	for i := 0; i < w; i++ {
		if i < free {
			v.b[i] = abit{k: bSym, sym: sym, idx: i}
		} else {
			v.b[i] = abit{k: bZero}
		}
	}
	return v
}

func (v bv) constVal() (uint64, bool) {
	var x uint64
	for i := 0; i < v.w; i++ {
		switch v.b[i].k {
		case bOne:
			x |= 1 << uint(i)
		case bZero:
		default:
			return 0, false
		}
	}
	return x, true
}

func bvEqual(a, b bv) bool {
	if a.w != b.w {
		return false
	}
	for i := 0; i < a.w; i++ {
		if a.b[i] != b.b[i] {
			return false
		}
	}
	return true
}

func bvJoin(a, b bv) bv {
	if a.w != b.w {
		return bvTop(a.w, a.signed)
	}
	r := bv{w: a.w, signed: a.signed}
	for i := 0; i < a.w; i++ {
		if a.b[i] == b.b[i] {
			r.b[i] = a.b[i]
		}
	}
	return r
}

func typeWidth(t types.Type) (int, bool, bool) {
	b, ok := t.Underlying().(*types.Basic)
	if !ok {
		return 0, false, false
	}
	switch b.Kind() {
	case types.Bool, types.UntypedBool:
		return 1, false, true
	case types.Int8:
		return 8, true, true
	case types.Uint8:
		return 8, false, true
	case types.Int16:
		return 16, true, true
	case types.Uint16:
		return 16, false, true
	case types.Int32, types.UntypedRune:
		return 32, true, true
	case types.Uint32:
		return 32, false, true
	case types.Int, types.Int64, types.UntypedInt:
		return 64, true, true
	case types.Uint, types.Uint64, types.Uintptr:
		return 64, false, true
	}
	return 0, false, false
}

func (v bv) convert(w int, signed bool) bv {
	r := bv{w: w, signed: signed}
	for i := 0; i < w; i++ {
		switch {
		case i < v.w:
			r.b[i] = v.b[i]
		case v.signed:
			r.b[i] = v.b[v.w-1] // sign extension copies the top bit
		default:
			r.b[i] = abit{k: bZero}
		}
	}
	return r
}

func bitAnd(a, b abit) abit {
	switch {
	case a.k == bZero || b.k == bZero:
		return abit{k: bZero}
	case a.k == bOne:
		return b
	case b.k == bOne:
		return a
	case a == b && a.k == bSym:
		return a
	}
	return abit{}
}

func bitOr(a, b abit) abit {
	switch {
	case a.k == bOne || b.k == bOne:
		return abit{k: bOne}
	case a.k == bZero:
		return b
	case b.k == bZero:
		return a
	case a == b && a.k == bSym:
		return a
	}
	return abit{}
}

func bitXor(a, b abit) abit {
	switch {
	case a.k == bZero:
		return b
	case b.k == bZero:
		return a
	case a.k == bOne && b.k == bOne:
		return abit{k: bZero}
	case a == b && a.k == bSym:
		return abit{k: bZero}
	}
	return abit{}
}

func bitNot(a abit) abit {
	switch a.k {
	case bZero:
		return abit{k: bOne}
	case bOne:
		return abit{k: bZero}
	}
	return abit{}
}

// bpEval evaluates fn on abstract arguments.
type bpEval struct {
	p      *Prog
	fresh  int
	notes  []string
	consts map[string]uint64
}

func (e *bpEval) freshSym(hint string) string {
	e.fresh++
	return fmt.Sprintf("%s#%d", hint, e.fresh)
}

// call evaluates a module function in place; results are joined over the reachable returns.
func (e *bpEval) call(fn *ssa.Function, args []bv, depth int) ([]bv, bool) {
	if fn == nil || len(fn.Blocks) == 0 || depth > 5 {
		return nil, false
	}
	// loop-free only
	idx := map[*ssa.BasicBlock]int{}
	order := rpo(fn)
	for i, b := range order {
		idx[b] = i
	}
	for _, b := range order {
		for _, s := range b.Succs {
			if idx[s] <= idx[b] {
				return nil, false
			}
		}
	}
	env := map[ssa.Value]bv{}
	for i, prm := range fn.Params {
		if i < len(args) {
			env[prm] = args[i]
		}
	}
	type edge struct{ from, to *ssa.BasicBlock }
	live := map[edge]bool{}
	reach := map[*ssa.BasicBlock]bool{order[0]: true}
	var results []bv
	haveRes := false
	val := func(v ssa.Value) bv { return e.value(env, v) }
	for _, b := range order {
		if !reach[b] {
			continue
		}
		for _, in := range b.Instrs {
			switch x := in.(type) {
			case *ssa.Phi:
				var acc bv
				first := true
				for i, pred := range b.Preds {
					if !live[edge{pred, b}] {
						continue
					}
					v := val(x.Edges[i])
					if first {
						acc, first = v, false
					} else {
						acc = bvJoin(acc, v)
					}
				}
				if w, s, ok := typeWidth(x.Type()); ok && first {
					acc = bvTop(w, s)
				}
				env[x] = acc
			case *ssa.BinOp:
				env[x] = e.binop(x, val(x.X), val(x.Y))
			case *ssa.UnOp:
				w, s, ok := typeWidth(x.Type())
				if !ok {
					continue
				}
				a := val(x.X)
				r := bvTop(w, s)
				switch x.Op {
				case token.XOR: // ^x
					for i := 0; i < w && i < a.w; i++ {
						r.b[i] = bitNot(a.b[i])
					}
				case token.NOT:
					r.b[0] = bitNot(a.b[0])
				case token.MUL:
					// load: a package-level constant table or unknown memory
				}
				env[x] = r
			case *ssa.Convert:
				if w, s, ok := typeWidth(x.Type()); ok {
					if _, _, okSrc := typeWidth(x.X.Type()); okSrc {
						env[x] = val(x.X).convert(w, s)
					} else {
						env[x] = bvTop(w, s)
					}
				}
			case *ssa.ChangeType:
				if w, s, ok := typeWidth(x.Type()); ok {
					env[x] = val(x.X).convert(w, s)
				}
			case *ssa.Call:
				callee := x.Call.StaticCallee()
				var as []bv
				for _, a := range x.Call.Args {
					as = append(as, val(a))
				}
				var res []bv
				ok := false
				if callee != nil && callee.Pkg != nil && e.p.allFns[callee] && callee.Pkg.Pkg.Path() == fn.Pkg.Pkg.Path() {
					res, ok = e.call(callee, as, depth+1)
				}
				if ok && len(res) == 1 {
					env[x] = res[0]
				} else if ok {
					for i, r := range res {
						env[tupleKey{x, i}] = r
					}
				} else {
					// unknown call: every result is a fresh input symbol
					hint := "call"
					if callee != nil {
						hint = callee.Name()
					} else if x.Call.IsInvoke() {
						hint = x.Call.Method.Name()
					}
					sym := e.freshSym(hint)
					if tup, isTup := x.Type().(*types.Tuple); isTup {
						for i := 0; i < tup.Len(); i++ {
							if w, s, okW := typeWidth(tup.At(i).Type()); okW {
								env[tupleKey{x, i}] = bvInput(fmt.Sprintf("%s.r%d", sym, i), w, s, w)
							}
						}
					} else if w, s, okW := typeWidth(x.Type()); okW {
						env[x] = bvInput(sym, w, s, w)
					}
				}
			case *ssa.Extract:
				if v, ok := env[tupleKey{x.Tuple, x.Index}]; ok {
					env[x] = v
				} else if w, s, okW := typeWidth(x.Type()); okW {
					env[x] = bvTop(w, s)
				}
			case *ssa.Lookup, *ssa.Field, *ssa.FieldAddr, *ssa.IndexAddr, *ssa.Index:
				// memory and tables are outside the domain
			case *ssa.If:
				c := val(x.Cond)
				switch c.b[0].k {
				case bOne:
					live[edge{b, b.Succs[0]}] = true
					reach[b.Succs[0]] = true
				case bZero:
					live[edge{b, b.Succs[1]}] = true
					reach[b.Succs[1]] = true
				default:
					for _, s := range b.Succs {
						live[edge{b, s}] = true
						reach[s] = true
					}
				}
			case *ssa.Jump:
				live[edge{b, b.Succs[0]}] = true
				reach[b.Succs[0]] = true
			case *ssa.Return:
				var rs []bv
				for _, r := range x.Results {
					rs = append(rs, val(r))
				}
				if !haveRes {
					results, haveRes = rs, true
				} else {
					for i := range rs {
						if i < len(results) {
							results[i] = bvJoin(results[i], rs[i])
						}
					}
				}
			}
		}
	}
	return results, haveRes
}

type tupleKey struct {
	t ssa.Value
	i int
}

func (tupleKey) Name() string                  { return "tuple" }
func (tupleKey) String() string                { return "tuple" }
func (tupleKey) Type() types.Type              { return nil }
func (tupleKey) Parent() *ssa.Function         { return nil }
func (tupleKey) Referrers() *[]ssa.Instruction { return nil }
func (tupleKey) Pos() token.Pos                { return token.NoPos }

func (e *bpEval) value(env map[ssa.Value]bv, v ssa.Value) bv {
	if r, ok := env[v]; ok {
		return r
	}
	if c, ok := v.(*ssa.Const); ok {
		w, s, okW := typeWidth(c.Type())
		if !okW || c.Value == nil {
			return bvTop(64, false)
		}
		switch c.Value.Kind() {
		case constant.Bool:
			if constant.BoolVal(c.Value) {
				return bvConst(1, 1, false)
			}
			return bvConst(0, 1, false)
		case constant.Int:
			if u, exact := constant.Uint64Val(c.Value); exact {
				return bvConst(u, w, s)
			}
			if i, exact := constant.Int64Val(c.Value); exact {
				return bvConst(uint64(i), w, s)
			}
		}
		return bvTop(w, s)
	}
	if w, s, ok := typeWidth(v.Type()); ok {
		return bvTop(w, s)
	}
	return bvTop(64, false)
}

func (e *bpEval) binop(x *ssa.BinOp, a, b bv) bv {
	w, s, ok := typeWidth(x.Type())
	if !ok {
		return bvTop(64, false)
	}
	r := bvTop(w, s)
	boolRes := func(known bool, val bool) bv {
		if !known {
			return bvTop(1, false)
		}
		if val {
			return bvConst(1, 1, false)
		}
		return bvConst(0, 1, false)
	}
	switch x.Op {
	case token.AND:
		for i := 0; i < w; i++ {
			r.b[i] = bitAnd(a.b[i], b.b[i])
		}
	case token.OR:
		for i := 0; i < w; i++ {
			r.b[i] = bitOr(a.b[i], b.b[i])
		}
	case token.XOR:
		for i := 0; i < w; i++ {
			r.b[i] = bitXor(a.b[i], b.b[i])
		}
	case token.AND_NOT:
		for i := 0; i < w; i++ {
			r.b[i] = bitAnd(a.b[i], bitNot(b.b[i]))
		}
	case token.SHL, token.SHR:
		k, isK := b.constVal()
		if !isK || k >= 64 {
			return r
		}
		n := int(k)
		for i := 0; i < w; i++ {
			src := i - n
			if x.Op == token.SHR {
				src = i + n
			}
			switch {
			case src >= 0 && src < w:
				r.b[i] = a.b[src]
			case x.Op == token.SHR && a.signed:
				r.b[i] = a.b[w-1]
			default:
				r.b[i] = abit{k: bZero}
			}
		}
	case token.EQL, token.NEQ:
		// different as soon as one position holds opposite constants; equal if all positions are
		// pairwise identical known bits
		differ, same := false, true
		for i := 0; i < a.w && i < b.w; i++ {
			p, q := a.b[i], b.b[i]
			if (p.k == bZero && q.k == bOne) || (p.k == bOne && q.k == bZero) {
				differ = true
			}
			if p.k == bTop || q.k == bTop || p != q {
				same = false
			}
		}
		switch {
		case differ:
			return boolRes(true, x.Op == token.NEQ)
		case same:
			return boolRes(true, x.Op == token.EQL)
		}
		return bvTop(1, false)
	case token.LSS, token.GEQ:
		// only the comparison with zero of a signed value: decided by the sign bit
		if k, isK := b.constVal(); isK && k == 0 && a.signed {
			switch a.b[a.w-1].k {
			case bOne:
				return boolRes(true, x.Op == token.LSS)
			case bZero:
				return boolRes(true, x.Op == token.GEQ)
			}
		}
		return bvTop(1, false)
	case token.ADD, token.SUB, token.MUL, token.QUO, token.REM:
		if ka, okA := a.constVal(); okA {
			if kb, okB := b.constVal(); okB {
				var v uint64
				switch x.Op {
				case token.ADD:
					v = ka + kb
				case token.SUB:
					v = ka - kb
				case token.MUL:
					v = ka * kb
				default:
					return r
				}
				if w < 64 {
					v &= 1<<uint(w) - 1
				}
				return bvConst(v, w, s)
			}
		}
	}
	return r
}

// rpo: reverse post-order of the reachable blocks.
func rpo(fn *ssa.Function) []*ssa.BasicBlock {
	seen := map[*ssa.BasicBlock]bool{}
	var post []*ssa.BasicBlock
	var dfs func(b *ssa.BasicBlock)
	dfs = func(b *ssa.BasicBlock) {
		seen[b] = true
		for _, s := range b.Succs {
			if !seen[s] {
				dfs(s)
			}
		}
		post = append(post, b)
	}
	if len(fn.Blocks) > 0 {
		dfs(fn.Blocks[0])
	}
	for i, j := 0, len(post)-1; i < j; i, j = i+1, j-1 {
		post[i], post[j] = post[j], post[i]
	}
	return post
}

package main

import (
	"encoding/json"
	"flag"
	"fmt"
	"os"
	"path/filepath"
	"runtime/debug"
	"sort"
)

type propDef struct {
	id          string
	run         func(c *Ctx)
	explanation string
}

var props = map[string]*propDef{}
var verbose *bool

func register(id string, run func(c *Ctx), explanation string) {
	props[id] = &propDef{id, run, explanation}
}

func main() {
	prop := flag.String("prop", "", "property id (C01..C20) or 'all'")
	tier := flag.String("tier", "quick", "quick|thorough")
	repo := flag.String("repo", "/repo", "repository to analyse")
	verif := flag.String("verif", "/verif", "verif directory (known findings, evidence, reports)")
	replay := flag.String("replay", "", "report to replay: re-runs the property and tells which keys still reproduce")
	noEvidence := flag.Bool("no-evidence", false, "do not write the evidence file (used for teeth runs on scratch copies)")
	verbose = flag.Bool("v", false, "list every rule instance")
	keysOnly := flag.Bool("keys", false, "print failing keys one per line (machine readable), no evidence")
	flag.Parse()
	if t := os.Getenv("VERIF_TIER"); t != "" && *tier == "" {
		*tier = t
	}
	r, err := filepath.Abs(*repo)
	if err == nil {
		*repo = r
	}
	repoRoot = *repo
	ids := []string{*prop}
	if *prop == "all" {
		ids = ids[:0]
		for id := range props {
			ids = append(ids, id)
		}
		sort.Strings(ids)
	}
	exit := 0
	for _, id := range ids {
		pd, ok := props[id]
		if !ok {
			fmt.Fprintf(os.Stderr, "unknown property %q\n", id)
			os.Exit(2)
		}
		c := newCtx(id, *tier, *repo, *verif)
		func() {
			defer func() {
				if r := recover(); r != nil {
					c.Undecided("PANIC", "checker", "-", fmt.Sprintf("%v\n%s", r, debug.Stack()))
				}
			}()
			pd.run(c)
			if *tier == "thorough" && !*keysOnly {
				runThorough(c, pd)
			}
		}()
		if *keysOnly {
			for _, o := range c.Obls {
				if !o.OK {
					fmt.Printf("KEY %s\n", o.Key())
				}
			}
			continue
		}
		rc := c.finish("other", pd.explanation, !*noEvidence)
		if *replay != "" {
			replayReport(c, *replay)
		}
		if rc != 0 {
			exit = 1
		}
	}
	os.Exit(exit)
}

func replayReport(c *Ctx, path string) {
	b, err := os.ReadFile(path)
	if err != nil {
		fmt.Printf("replay: %v\n", err)
		return
	}
	var rep struct {
		Violations []Obligation `json:"violations"`
	}
	if err := json.Unmarshal(b, &rep); err != nil {
		fmt.Printf("replay: %v\n", err)
		return
	}
	now := map[string]Obligation{}
	for _, o := range c.Obls {
		if !o.OK {
			now[o.Key()] = o
		}
	}
	for _, o := range rep.Violations {
		if n, ok := now[o.Key()]; ok {
			fmt.Printf("REPLAY still-reproduces %s at %s: %s\n", o.Key(), n.Pos, n.Detail)
		} else {
			fmt.Printf("REPLAY no-longer-reproduces %s\n", o.Key())
		}
	}
}

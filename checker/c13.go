package main

import (
	"fmt"
	"go/token"
	"go/types"
	"strings"

	"golang.org/x/tools/go/ssa"
)

func init() {
	register("C13", checkC13, "'Nothing else was written' over all histories is not statically decidable. Decided on every path: in the terminfo and simulation painters every emission (addressing, style, payload) is dominated by the true edge of CellBuffer.Dirty and the clean-mark is tied to the payload write; from Show's entry every force-dirty site (Invalidate, SetDirty(true), CellBuffer.Resize) reachable through the call graph is enumerated and must lie behind the size-changed test of resize() or be one of the two documented neighbour sites (hidden half of a wide rune; the auto-margin corner trick) — any new unconditional invalidation on the Show path is a violation; cell payload is written only by drawCell; LockRegion(true) reaches only LockCell and LockRegion(false) only UnlockCell (with C08: a locked cell is never dirty, unlocking force-dirties).")
}

func checkC13(c *Ctx) {
	c.Rule("C13-R1", "in every backend's drawCell all emissions are dominated by the Dirty true edge; SetDirty(false) only together with the payload write")
	c.Rule("C13-R2", "every force-dirty site reachable from Show lies behind resize()'s size-changed test or is a documented neighbour site")
	c.Rule("C13-R3", "cell payload is written only from drawCell (writeString callers)")
	c.Rule("C13-R4", "LockRegion(lock) calls LockCell only under lock==true and UnlockCell only under lock==false")
	c.Rule("C13-R8", "Dirty answers false for a locked cell before it looks at anything else; unlocking force-dirties")
	c.Expect("C13-R8", 3)
	c.Rule("C13-R7", "the snapshot taken when a cell is marked clean is exactly what Dirty compares with (last* = curr* and nothing else), so an unchanged cell is clean at the next Show")
	c.Expect("C13-R7", 6)
	c.Rule("C13-R5", "the content-changed tests of CellBuffer do not tell a nil combining list from an empty one (the stored copy is always non-nil): reflect.DeepEqual on combining lists only under a non-zero length guard")
	c.Rule("C13-R6", "the lock flag of a cell is written only by LockCell (true) and UnlockCell (false); nothing else (invalidation, whole-cell copies) can unlock a cell behind the application's back, and the cells that survive Resize carry their flag into the new array")
	c.Expect("C13-R5", 1)
	c.Expect("C13-R6", 2)
	c.Rule("C13-R9", "the force-dirty marker (lastMain = 0) is stored only by SetDirty, Invalidate, Resize and UnlockCell; every other mutator dirties a neighbour through SetDirty(x, y, true), whose bounds test keeps it inside the row")
	c.Expect("C13-R9", 1)
	c.Expect("C13-R1", 8)
	c.Expect("C13-R2", 5)
	c.Expect("C13-R3", 1)
	c.Expect("C13-R4", 3)
	p := c.P("linux")
	if p == nil || p.Tcell == nil {
		c.Undecided("C13-R1", "package tcell", "-", "not loaded")
		return
	}
	c.Rule("C13-R11", "the cell buffer keeps its own copy of the combining runes: the comparison of what is shown with what is current cannot be changed by the caller reusing its slice (an unchanged cell would be repainted)")
	c.Expect("C13-R11", 1)
	c.asRule("C08-R4", "C13-R11", func() { c08Alias(c, p, cbMethods(p)) })
	c.Rule("C13-R12", "only calls whose contract is a repaint can force cells dirty: every force-dirty site of the terminfo screen is reached from Show (C13-R2), Sync, Init/Resume, Suspend/Fini, LockRegion, SetSize or the main loop's size report only; a setter that forces a repaint does so behind a test that the value really changes (against the field it assigns)")
	c.Expect("C13-R12", 3)
	checkForceDirtyEntries(c, p, "C13-R12", "tScreen")
	checkForceDirtyEntries(c, p, "C13-R12", "baseScreen")
	c.Rule("C13-R13", "every Show looks at every cell: nothing but the running state stands between draw and the cell loop, or — if a flag does — everything that can make a cell dirty (force-dirty marker, unlock, content store) raises it (an unlocked region is repainted by the first Show after the unlock)")
	c.Expect("C13-R13", 1)
	checkCellLoopGate(c, p, "C13-R13", "tScreen")
	c.Rule("C13-R14", "locked cells are never written: the terminal is wiped (clear flag) only on the application's explicit request, Sync; no other function raises the flag (a clear erases locked cells, which are not repainted while locked)")
	c.Expect("C13-R14", 1)
	checkClearOnlyOnRequest(c, p, "C13-R14", "tScreen")
	c.Rule("C13-R15", "writes cell content only to changed cells: capability strings reach the frame buffer through terminfo's TPuts, which removes the $<n> padding markers (appended verbatim, vt100's cup and sgr0 print '$<5>' and '$<2>' over neighbouring cells)")
	c.Expect("C13-R15", 1)
	checkCapabilitiesThroughStripper(c, p, "C13-R15")
	c.Rule("C13-R16", "a Show with no change writes no cell content: each pass starts from an empty frame buffer (draw resets it before the flush; bytes.Buffer.WriteTo keeps what a short write left over, and an idle Show would send the rest of the previous frame)")
	c.Expect("C13-R16", 1)
	checkFrameBufferStartsEmpty(c, p, "C13-R16")
	c.Rule("C13-R17", "the neighbour is used to paint the bottom-right corner only: the insert-character emission of drawCell is reached only where x == w-1 and y == h-1 are both known (a helper that answers for every row of the last column rewrites unchanged, possibly locked, neighbours)")
	c.Expect("C13-R17", 1)
	checkCornerTrickOnlyInTheCorner(c, p, "C13-R17")
	c.Rule("C13-R18", "cell content is written only to the cells that changed: the cursor address sent before a cell is expanded from its coordinates each time, never taken from a cache of address strings kept by the screen (colliding keys or a stale geometry send content to a cell that did not change)")
	c.Expect("C13-R18", 1)
	checkAddressesNotCached(c, p, "C13-R18")
	c.Rule("C13-R19", "content is written to the changed cell, not its neighbour: the cached cursor column advances by the cell's width, never by a measure of the bytes written (the charset switches around an ACS glyph are not columns, and a wrong column suppresses the next cursor address)")
	c.Expect("C13-R19", 1)
	checkColumnAdvancedByCellWidth(c, p, "C13-R19")
	c.Rule("C13-R20", "the column covered by a wide rune is not written on its own: every way round the column loop of draw passes drawCell, whose answer is the step (a continue for locked cells in front of it visits the covered, permanently dirty column)")
	c.Expect("C13-R20", 1)
	checkColumnLoopStepsByDrawCell(c, p, "C13-R20")
	c.Rule("C13-R21", "what is written for a cell takes the columns the painter counts for it: ACS glyph, fallback string and '?' are written for the main rune only, an unrepresentable combining rune is elided (an extra '?' shifts everything after it onto unchanged and locked cells; = C17-R12)")
	c.Expect("C13-R21", 2)
	checkFallbackOnlyForMainRune(c, p, "C13-R21")
	c.Rule("C13-R22", "storing the content a cell already has dirties nothing: SetContent dirties covered columns only inside the content-changed test (= C08-R6)")
	c.Expect("C13-R22", 1)
	c.asRule("C08-R6", "C13-R22", func() { c08Wide(c, p, cbMethods(p)) })
	c.Rule("C13-R23", "locked cells are never written: the last-cell workaround (write the corner's content one cell to the left, insert a character, repaint that cell) is taken only where the cell it writes on is known not to be locked, since its repaint goes through drawCell, which refuses a locked cell (known finding on today's tree)")
	c.Expect("C13-R23", 1)
	checkCornerTrickSparesLockedNeighbour(c, p, "C13-R23")
	c.Rule("C13-R10", "a cell marked dirty (marker rune zero: SetDirty(true), Invalidate, UnlockCell) is reported dirty whatever it holds, also one nothing was ever stored in; combining runes are compared in full")
	c.Expect("C13-R10", 2)
	c.asRule("C08-R9", "C13-R10", func() { checkDirtyDecisions(c, p, "C08-R9") })
	if dc := p.Fn("tcell:(*tScreen).drawCell"); dc != nil {
		checkDirtyGate(c, p, dc, "C13-R1", isTermEmission, 3)
	} else {
		c.Undecided("C13-R1", "(*tScreen).drawCell", "-", "not found")
	}
	if sc := p.Fn("tcell:(*simscreen).drawCell"); sc != nil {
		checkDirtyGate(c, p, sc, "C13-R1", isSimEmission, 2)
	} else {
		c.Undecided("C13-R1", "(*simscreen).drawCell", "-", "not found")
	}
	for _, t := range []string{"tScreen", "simscreen"} {
		c13ShowPath(c, p, t, "C13-R2")
	}
	// R3
	ws := payloadWriterCallers(p)
	c.Check(len(ws) == 2 && ws[0] == "Beep" && ws[1] == "drawCell", "C13-R3", "writeString:callers", "-", fmt.Sprintf("callers of the raw writer: %v (not counted: wrappers that write one expanded capability %v)", ws, textEmitterNames(p)))
	c13ListCompare(c, p)
	{
		allowed := map[string]bool{"SetDirty": true, "Invalidate": true, "Resize": true, "UnlockCell": true}
		bad, n := "", 0
		for _, fn := range p.modFns {
			if fn.Pkg != p.Tcell {
				continue
			}
			for _, st := range storesTo(fn, "tcell.cell", "lastMain") {
				if k, isK := constInt(st.Val); isK && k == 0 {
					n++
					if !allowed[fn.Name()] {
						bad += fn.Name() + " stores the marker itself at " + p.pos(st.Pos()) + "; "
					}
				}
			}
		}
		c.Check(bad == "" && n >= 2, "C13-R9", "force-dirty-marker:writers", "-", fmt.Sprintf("%d stores of lastMain = 0 %s", n, bad))
	}
	checkCleanMarkCallers(c, p, "C13-R1")
	c.asRule("C08-R2", "C13-R7", func() { c08Pairs(c, p, cbMethods(p)) })
	c.asRule("C08-R3", "C13-R8", func() { c08Lock(c, p, cbMethods(p)) })
	c13LockOwnership(c, p)
	// R4
	lr := p.Fn("tcell:(*baseScreen).LockRegion")
	if lr == nil {
		c.Undecided("C13-R4", "LockRegion", "-", "not found")
		return
	}
	lockRegionRange(c, p, lr, "C13-R4")
	for _, want := range []struct {
		callee string
		val    string
	}{{"CellBuffer).LockCell", "true"}, {"CellBuffer).UnlockCell", "false"}} {
		// a call of the method, or a call through a function value that may stand for it
		// (`apply := cells.UnlockCell; if lock { apply = cells.LockCell }`), with what is known where
		// that alternative was chosen
		var calls [][]Atom
		eachInstr(lr, func(in ssa.Instruction) {
			cc := callCommon(in)
			if cc == nil || cc.IsInvoke() {
				return
			}
			if strings.HasSuffix(calleeName(cc), want.callee) {
				calls = append(calls, guardsAt(in.Block()))
				return
			}
			if cc.StaticCallee() == nil {
				for _, alt := range handlerAlts(cc.Value, 0) {
					if alt.kind == "fn" && strings.HasSuffix(want.callee, ")."+alt.name) {
						calls = append(calls, append(guardsAt(in.Block()), alt.guards...))
					}
				}
			}
		})
		ok := len(calls) > 0
		for _, g := range calls {
			found := false
			for _, a := range g {
				if a.L == "lock" && ((a.Op == "==" && a.R == want.val) || (a.Op == "!=" && a.R != want.val && (a.R == "true" || a.R == "false"))) {
					found = true
				}
			}
			if !found {
				ok = false
			}
		}
		// and the other one must not be reachable under this value: covered by the symmetric check
		c.Check(ok, "C13-R4", "LockRegion:"+want.callee+"@lock=="+want.val, p.pos(lr.Pos()), fmt.Sprintf("%d call(s), each guarded by lock == %s", len(calls), want.val))
	}
}

// isTermEmission: a write towards the terminal in tScreen.drawCell (TPuts, writeString, sendFgBg).
func isTermEmission(in ssa.Instruction) bool {
	cc := callCommon(in)
	if cc == nil {
		return false
	}
	if _, isDefer := in.(*ssa.Defer); isDefer {
		return false
	}
	n := calleeName(cc)
	return strings.HasSuffix(n, "tScreen).TPuts") || strings.HasSuffix(n, "tScreen).writeString") || strings.HasSuffix(n, "tScreen).sendFgBg") || callsTextEmitter(in)
}

// isSimEmission: a store into the simulated physical cell (simc.Bytes / Runes / Style).
func isSimEmission(in ssa.Instruction) bool {
	st, ok := in.(*ssa.Store)
	if !ok {
		return false
	}
	ref, _, ok := fieldAddrRef(st.Addr)
	return ok && ref.Owner == "tcell.SimCell"
}

// c13ShowPath enumerates force-dirty sites reachable from (*T).Show.
func c13ShowPath(c *Ctx, p *Prog, tname, rule string) {
	show := p.Fn("tcell:(*" + tname + ").Show")
	if show == nil {
		c.Undecided(rule, "(*"+tname+").Show", "-", "not found")
		return
	}
	// reachable functions (static calls inside the package, closures and deferred closures)
	reach := map[*ssa.Function]bool{}
	var order []*ssa.Function
	var walk func(f *ssa.Function)
	walk = func(f *ssa.Function) {
		if f == nil || reach[f] || f.Pkg != p.Tcell {
			return
		}
		if recvTypeName(topFunc(f)) == cbOwner {
			return // CellBuffer internals are the sites themselves
		}
		reach[f] = true
		order = append(order, f)
		eachInstr(f, func(in ssa.Instruction) {
			if cc := callCommon(in); cc != nil {
				if _, isGo := in.(*ssa.Go); !isGo {
					walk(staticCallee(cc))
				}
			}
		})
	}
	walk(show)
	nsites := 0
	for _, f := range order {
		short := f.RelString(p.Tcell.Pkg)
		k := 0
		eachInstr(f, func(in ssa.Instruction) {
			cc := callCommon(in)
			if cc == nil {
				return
			}
			n := calleeName(cc)
			kind := ""
			switch {
			case strings.HasSuffix(n, "CellBuffer).Invalidate"):
				kind = "Invalidate"
			case strings.HasSuffix(n, "CellBuffer).Resize"):
				kind = "Resize"
			case strings.HasSuffix(n, "CellBuffer).SetDirty"):
				if v, ok := constBool(cc.Args[3]); !ok || v {
					kind = "SetDirty(true)"
				}
			case strings.HasSuffix(n, "CellBuffer).UnlockCell"):
				kind = "UnlockCell"
			}
			if kind == "" {
				return
			}
			nsites++
			k++
			key := fmt.Sprintf("%s:%s#%d", short, kind, k)
			// (a) behind the size-changed test of resize()
			if f.Name() == "resize" {
				ok := behindSizeChanged(f, in)
				c.Check(ok, rule, key, p.pos(in.Pos()), "invalidation only on paths where the terminal size differs from the buffer size")
				return
			}
			// (b) hidden half of a wide rune: SetDirty(x+1, y, true) under width > 1
			// (in draw, or in the helper that paints a row for it: the site is recognised by what it does)
			if kind == "SetDirty(true)" && !deferredFromDrawCell(p, tname, f) {
				arg := derefCell(cc.Args[1])
				okArg := false
				if bo, ok := arg.(*ssa.BinOp); ok && bo.Op == token.ADD {
					if k1, ok := constInt(bo.Y); ok && k1 == 1 {
						okArg = true
					}
				}
				okW := false
				for _, a := range guardsAt(in.Block()) {
					if strings.Contains(a.L, "drawCell") && a.Op == ">" && a.R == "1" {
						okW = true
					}
				}
				if f.Name() == "draw" || (okArg && okW) {
					c.Check(okArg && okW, rule, key, p.pos(in.Pos()), "documented neighbour site: column hidden by a wide rune, only when the painted width exceeds 1")
					return
				}
			}
			// (c) the auto-margin corner trick inside drawCell's deferred closure
			if kind == "SetDirty(true)" && deferredFromDrawCell(p, tname, f) {
				arg := derefCell(cc.Args[1])
				okArg := false
				if bo, ok := arg.(*ssa.BinOp); ok && bo.Op == token.SUB {
					if k1, ok := constInt(bo.Y); ok && k1 == 1 {
						okArg = true
					}
				}
				// the closure is deferred only under the bottom-right-corner test
				okReg := false
				eachInstr(p.Fn("tcell:(*"+tname+").drawCell"), func(in2 ssa.Instruction) {
					if d, ok := in2.(*ssa.Defer); ok && staticCallee(&d.Call) == f {
						for _, a := range guardsAt(in2.Block()) {
							if (strings.Contains(a.L, "t.w") || strings.Contains(a.R, "t.w")) && a.Op == "==" {
								okReg = true
							}
						}
					}
				})
				c.Check(okArg && okReg, rule, key, p.pos(in.Pos()), "documented neighbour site: the corner trick repaints column w-2, registered only for the bottom-right cell")
				return
			}
			c.Fail(rule, key, p.pos(in.Pos()), "force-dirty site on the Show path outside resize()'s size-changed branch: every Show would repaint cells that did not change")
		})
	}
	if nsites < 1 {
		c.Undecided(rule, "(*"+tname+").Show:sites", p.pos(show.Pos()), fmt.Sprintf("only %d force-dirty sites found on the Show path (the resize branch is expected)", nsites))
	}
}

func topFunc(f *ssa.Function) *ssa.Function {
	for f.Parent() != nil {
		f = f.Parent()
	}
	return f
}

// behindSizeChanged: every path from the entry of resize() to `site` takes the
// "differs" edge of a comparison between the terminal size and the stored size.
func behindSizeChanged(fn *ssa.Function, site ssa.Instruction) bool {
	isSizeCmp := func(v ssa.Value) (eq bool, ok bool) {
		bo, isBO := v.(*ssa.BinOp)
		if !isBO || (bo.Op != token.EQL && bo.Op != token.NEQ) {
			return false, false
		}
		l, r := valName(bo.X), valName(bo.Y)
		sized := func(s string) bool {
			return strings.HasSuffix(s, ".w") || strings.HasSuffix(s, ".h") || strings.HasSuffix(s, ".Width") || strings.HasSuffix(s, ".Height") ||
				strings.Contains(s, "Size(") || strings.HasSuffix(s, ".physw") || strings.HasSuffix(s, ".physh")
		}
		if !(sized(l) && sized(r)) {
			return false, false
		}
		return bo.Op == token.EQL, true
	}
	const differs Facts = 1
	edgeT := func(from *ssa.BasicBlock, idx int, f Facts) Facts {
		if len(from.Instrs) == 0 {
			return f
		}
		iff, ok := from.Instrs[len(from.Instrs)-1].(*ssa.If)
		if !ok {
			return f
		}
		eq, ok := isSizeCmp(iff.Cond)
		if !ok {
			return f
		}
		// true edge of ==  → equal; false edge → differs.  For != the other way round.
		if (eq && idx == 1) || (!eq && idx == 0) {
			return f | differs
		}
		return f
	}
	in := mustFlow(fn, 0, nil, edgeT)
	return factsAt(in, site, nil)&differs != 0
}

// c13ListCompare: SetContent stores a private, never-nil copy of the combining
// runes (append([]rune{}, combc...)), callers pass nil for "none".  A comparison
// that distinguishes nil from empty therefore reports a change on every
// re-store of identical content, and the next Show rewrites unchanged cells.
// reflect.DeepEqual does distinguish them, so it may only run where a non-zero
// length has been established (lengths are compared separately).
func c13ListCompare(c *Ctx, p *Prog) {
	n := 0
	for _, fn := range p.modFns {
		if fn.Pkg != p.Tcell || recvTypeName(topFunc(fn)) != "tcell.CellBuffer" {
			continue
		}
		eachInstr(fn, func(in ssa.Instruction) {
			cc := callCommon(in)
			if cc == nil || calleeName(cc) != "reflect.DeepEqual" || len(cc.Args) != 2 {
				return
			}
			isRunes := func(v ssa.Value) (ssa.Value, bool) {
				if mi, ok := v.(*ssa.MakeInterface); ok {
					if sl, ok := mi.X.Type().Underlying().(*types.Slice); ok {
						if b, ok := sl.Elem().Underlying().(*types.Basic); ok && b.Kind() == types.Int32 {
							return mi.X, true
						}
					}
				}
				return nil, false
			}
			a, okA := isRunes(cc.Args[0])
			b, okB := isRunes(cc.Args[1])
			if !okA || !okB {
				return
			}
			n++
			guarded := false
			for _, g := range rawGuardsAt(in.Block()) {
				bo, ok := g.Cond.(*ssa.BinOp)
				if !ok {
					continue
				}
				call, ok := bo.X.(*ssa.Call)
				if !ok {
					continue
				}
				bi, ok := call.Call.Value.(*ssa.Builtin)
				if !ok || bi.Name() != "len" || (call.Call.Args[0] != a && call.Call.Args[0] != b && valName(call.Call.Args[0]) != valName(a) && valName(call.Call.Args[0]) != valName(b)) {
					continue
				}
				k, ok := constInt(bo.Y)
				if !ok {
					continue
				}
				if g.Positive && ((bo.Op == token.GTR && k == 0) || (bo.Op == token.NEQ && k == 0) || (bo.Op == token.GEQ && k == 1)) {
					guarded = true
				}
				if !g.Positive && ((bo.Op == token.EQL && k == 0) || (bo.Op == token.LEQ && k == 0) || (bo.Op == token.LSS && k == 1)) {
					guarded = true
				}
			}
			c.Check(guarded, "C13-R5", fn.Name()+":list-compare@"+valName(a), p.pos(in.Pos()), "reflect.DeepEqual("+valName(a)+", "+valName(b)+") runs only where one of the lists is known to be non-empty")
		})
	}
	if n == 0 {
		c.Trivial("C13-R5", "list-compare", "-", "no reflect.DeepEqual on combining lists")
	}
}

// lockRegionRange: the region walked is exactly [x, x+width) x [y, y+height): loop variables
// start at the arguments and stop below argument+extent (the cell functions ignore what is
// off-screen).  A clamped origin shifts the region instead of clipping it.
func lockRegionRange(c *Ctx, p *Prog, lr *ssa.Function, rule string) {

	okRange, nLoops := true, 0
	detail := ""
	loopOf := map[ssa.Value][2]*ssa.Parameter{} // counter -> (origin parameter, extent parameter)
	for _, b := range lr.Blocks {
		for _, in := range b.Instrs {
			phi, ok := in.(*ssa.Phi)
			if !ok || len(phi.Edges) != 2 {
				continue
			}
			var init ssa.Value
			for i, e := range phi.Edges {
				if !b.Dominates(b.Preds[i]) {
					init = e
				}
			}
			// its bound
			for _, r := range referrers(phi) {
				bo, ok := r.(*ssa.BinOp)
				if !ok || bo.Op != token.LSS || bo.X != ssa.Value(phi) {
					continue
				}
				nLoops++
				add, isAdd := bo.Y.(*ssa.BinOp)
				prm, isPrm := derefCell(init).(*ssa.Parameter)
				if !isPrm || !isAdd || add.Op != token.ADD || derefCell(add.X) != ssa.Value(prm) {
					okRange = false
					detail += fmt.Sprintf("loop from %s below %s; ", valName(init), valName(bo.Y))
					continue
				}
				if p2, isP2 := derefCell(add.Y).(*ssa.Parameter); !isP2 {
					okRange = false
					detail += "extent is not the argument; "
				} else {
					loopOf[phi] = [2]*ssa.Parameter{prm, p2}
				}
			}
		}
	}
	// each cell call gets (column counter, row counter): the column loop runs over x … x+width, the
	// row loop over y … y+height (one pair of loops, or one pair per direction)
	nCalls := 0
	if len(lr.Params) == 6 {
		eachInstr(lr, func(in ssa.Instruction) {
			cc := callCommon(in)
			if cc == nil || cc.IsInvoke() {
				return
			}
			nm := calleeName(cc)
			direct := strings.HasSuffix(nm, "CellBuffer).LockCell") || strings.HasSuffix(nm, "CellBuffer).UnlockCell")
			args := cc.Args
			if direct {
				args = args[1:]
			} else if cc.StaticCallee() != nil || len(args) != 2 {
				return
			}
			if len(args) != 2 {
				return
			}
			nCalls++
			cx, okx := loopOf[derefCell(args[0])]
			cy, oky := loopOf[derefCell(args[1])]
			if !okx || !oky || cx[0] != lr.Params[1] || cx[1] != lr.Params[3] || cy[0] != lr.Params[2] || cy[1] != lr.Params[4] {
				okRange = false
				detail += "a cell call at " + p.pos(in.Pos()) + " is not given (column in x…x+width, row in y…y+height); "
			}
		})
	}
	c.Check(okRange && nLoops >= 2 && nLoops%2 == 0 && nCalls >= 1, rule, "LockRegion:range", p.pos(lr.Pos()), fmt.Sprintf("%d loops, each from the origin argument to origin+extent %s", nLoops, detail))

}

// fieldBase: the struct pointer a field address belongs to (nil if v is not a field address).
func fieldBase(v ssa.Value) ssa.Value {
	if fa, ok := v.(*ssa.FieldAddr); ok {
		return fa.X
	}
	return nil
}

// sameCellAddr: both are the same SSA value (one `&cells[i]` computed once and used for several fields).
func sameCellAddr(a, b ssa.Value) bool {
	return a != nil && b != nil && a == b
}

// deferredFromDrawCell: f runs as a deferred call of the painter's drawCell — the function literal of
// the corner trick, or a method it was turned into.
func deferredFromDrawCell(p *Prog, tname string, f *ssa.Function) bool {
	dc := p.Fn("tcell:(*" + tname + ").drawCell")
	if dc == nil || f == nil {
		return false
	}
	hit := false
	eachInstr(dc, func(in ssa.Instruction) {
		if d, ok := in.(*ssa.Defer); ok && staticCallee(&d.Call) == f {
			hit = true
		}
	})
	return hit
}

// c13LockOwnership: who writes a cell's lock flag, and that it travels with the content (C13-R6).
func c13LockOwnership(c *Ctx, p *Prog) {

	ws := map[string]string{}
	whole := ""
	copies := map[string]*ssa.Store{}
	for _, fn := range p.modFns {
		if fn.Pkg != p.Tcell {
			continue
		}
		for _, st := range storesTo(fn, "tcell.cell", "lock") {
			if ref, _, ok := loadedField(st.Val); ok && ref.Name == "lock" {
				copies[fn.Name()] = st // the flag of another cell travels with its content
				continue
			}
			ws[fn.Name()] = valName(st.Val)
		}
		eachInstr(fn, func(in ssa.Instruction) {
			if st, ok := in.(*ssa.Store); ok && typeName(st.Val.Type()) == "tcell.cell" && !freshCellLiteral(st.Val) {
				whole += fn.Name() + " stores a whole cell at " + p.pos(in.Pos()) + "; "
			}
		})
	}
	okCopies := true
	for n := range copies {
		if n != "Resize" {
			okCopies = false
			whole += n + " copies a lock flag between cells; "
		}
	}
	ok := len(ws) == 2 && ws["LockCell"] == "true" && ws["UnlockCell"] == "false" && whole == "" && okCopies
	c.Check(ok, "C13-R6", "cell.lock:writers", "-", fmt.Sprintf("stores to cell.lock: %v %s", ws, whole))
	// whoever replaces the cell array while keeping the content keeps the locks: in every function that
	// installs a new array in CellBuffer.cells and copies currMain from the old cells, the block that
	// copies currMain also copies lock (from the same source cell)
	for _, fn := range p.modFns {
		if fn.Pkg != p.Tcell || len(storesTo(fn, "tcell.CellBuffer", "cells")) == 0 {
			continue
		}
		for _, st := range storesTo(fn, "tcell.cell", "currMain") {
			_, src, isCopy := loadedField(st.Val)
			if !isCopy {
				continue
			}
			carried := false
			for _, ls := range storesTo(fn, "tcell.cell", "lock") {
				if ref, lsrc, ok := loadedField(ls.Val); ok && ref.Name == "lock" && ls.Block() == st.Block() && sameCellAddr(lsrc, src) && sameCellAddr(fieldBase(ls.Addr), fieldBase(st.Addr)) {
					carried = true
				}
			}
			c.Check(carried, "C13-R6", fn.Name()+":lock-travels-with-content", p.pos(st.Pos()), "the cells that survive a change of the array keep their lock flag (copied next to currMain, same source and destination cell)")
		}
	}
}

package main

import (
	"fmt"
	"go/ast"
	"go/constant"
	"go/token"
	"go/types"
	"sort"
	"strings"

	"golang.org/x/tools/go/packages"
)

// T1 — constant extraction of the terminal database.

// Entry is one terminfo.AddTerminfo(&terminfo.Terminfo{…}) composite literal.
type Entry struct {
	PkgPath  string
	Pos      token.Pos
	Name     string
	Aliases  []string
	Str      map[string]string
	Int      map[string]int64
	Bool     map[string]bool
	NonConst []string // fields whose value is not a compile-time constant
	Order    []string // field names in source order
}

func (e *Entry) S(f string) string { return e.Str[f] }

// Names returns name + aliases.
func (e *Entry) Names() []string { return append([]string{e.Name}, e.Aliases...) }

// extractEntries finds every AddTerminfo call with a composite-literal argument in the module.
func extractEntries(p *Prog) (entries []*Entry, nonLiteral []string) {
	for _, pk := range p.Pkgs {
		if !strings.HasPrefix(pk.PkgPath, modPath+"/terminfo/") {
			continue
		}
		for _, f := range pk.Syntax {
			ast.Inspect(f, func(n ast.Node) bool {
				call, ok := n.(*ast.CallExpr)
				if !ok {
					return true
				}
				if !isAddTerminfo(pk, call) {
					return true
				}
				if len(call.Args) != 1 {
					nonLiteral = append(nonLiteral, p.pos(call.Pos()))
					return true
				}
				arg := call.Args[0]
				if u, ok := arg.(*ast.UnaryExpr); ok && u.Op == token.AND {
					arg = u.X
				}
				cl, ok := arg.(*ast.CompositeLit)
				if !ok {
					nonLiteral = append(nonLiteral, p.pos(call.Pos()))
					return true
				}
				entries = append(entries, entryFromLit(pk, cl))
				return true
			})
		}
	}
	sort.Slice(entries, func(i, j int) bool { return entries[i].Name < entries[j].Name })
	return
}

func isAddTerminfo(pk *packages.Package, call *ast.CallExpr) bool {
	var id *ast.Ident
	switch fx := call.Fun.(type) {
	case *ast.SelectorExpr:
		id = fx.Sel
	case *ast.Ident:
		id = fx
	}
	if id == nil {
		return false
	}
	obj := pk.TypesInfo.Uses[id]
	fn, ok := obj.(*types.Func)
	return ok && fn.Name() == "AddTerminfo" && fn.Pkg() != nil && fn.Pkg().Path() == modPath+"/terminfo"
}

func entryFromLit(pk *packages.Package, cl *ast.CompositeLit) *Entry {
	e := &Entry{PkgPath: pk.PkgPath, Pos: cl.Pos(), Str: map[string]string{}, Int: map[string]int64{}, Bool: map[string]bool{}}
	for _, el := range cl.Elts {
		kv, ok := el.(*ast.KeyValueExpr)
		if !ok {
			e.NonConst = append(e.NonConst, "<positional>")
			continue
		}
		key, ok := kv.Key.(*ast.Ident)
		if !ok {
			e.NonConst = append(e.NonConst, "<key>")
			continue
		}
		e.Order = append(e.Order, key.Name)
		if key.Name == "Aliases" {
			al, ok := kv.Value.(*ast.CompositeLit)
			if !ok {
				e.NonConst = append(e.NonConst, "Aliases")
				continue
			}
			for _, a := range al.Elts {
				if s, ok := strConst(pk.TypesInfo, a); ok {
					e.Aliases = append(e.Aliases, s)
				} else {
					e.NonConst = append(e.NonConst, "Aliases[]")
				}
			}
			continue
		}
		tv, ok := pk.TypesInfo.Types[kv.Value]
		if !ok || tv.Value == nil {
			e.NonConst = append(e.NonConst, key.Name)
			continue
		}
		switch tv.Value.Kind() {
		case constant.String:
			e.Str[key.Name] = constant.StringVal(tv.Value)
		case constant.Int:
			v, _ := constant.Int64Val(tv.Value)
			e.Int[key.Name] = v
		case constant.Bool:
			e.Bool[key.Name] = constant.BoolVal(tv.Value)
		default:
			e.NonConst = append(e.NonConst, key.Name)
		}
	}
	e.Name = e.Str["Name"]
	return e
}

// terminfoStringFields lists the string fields of terminfo.Terminfo in declaration order.
func terminfoFields(p *Prog) (strs, ints, bools []string) {
	if p.Terminfo == nil {
		return
	}
	n := p.namedType(p.Terminfo, "Terminfo")
	if n == nil {
		return
	}
	st := n.Underlying().(*types.Struct)
	for i := 0; i < st.NumFields(); i++ {
		f := st.Field(i)
		switch t := f.Type().Underlying().(type) {
		case *types.Basic:
			switch {
			case t.Kind() == types.String:
				strs = append(strs, f.Name())
			case t.Info()&types.IsInteger != 0:
				ints = append(ints, f.Name())
			case t.Kind() == types.Bool:
				bools = append(bools, f.Name())
			}
		}
	}
	return
}

func describeEntry(e *Entry) string {
	return fmt.Sprintf("%s (%d string caps, colors=%d)", e.Name, len(e.Str), e.Int["Colors"])
}

package main

import (
	"fmt"
	"go/token"
	"go/types"
	"sort"
	"strings"

	"golang.org/x/tools/go/ssa"
)

func init() {
	register("C08", checkC08, "Equivalence of CellBuffer with a W×H array model over all histories is not statically decidable. Decided, on every path of every CellBuffer method (cell.go): each cells[] access is a range index or dominated by the four-way bounds guard with index y*w+x, and cells/w/h are only replaced together in Resize with make(w*h) (the shape invariant the guards rely on); Dirty compares and SetDirty(false)/Resize copy every curr/last field pair discovered from the struct (a forgotten field is a missed change); the lock test precedes every 'dirty' answer, unlock force-dirties, Invalidate force-dirties every cell; the combining slice stored is a fresh copy and nobody writes through stored combining slices; ColorNone merging is present wherever the style is stored; changing a wide rune dirties its covered columns before the width changes; and width is always recomputed from the rune that is stored (or copied together with it).")
}

const cellOwner = "tcell.cell"
const cbOwner = "tcell.CellBuffer"

func cbMethods(p *Prog) map[string]*ssa.Function {
	out := map[string]*ssa.Function{}
	for _, fn := range p.modFns {
		if fn.Pkg == p.Tcell && fn.Parent() == nil && recvTypeName(fn) == cbOwner {
			out[fn.Name()] = fn
		}
	}
	return out
}

func checkC08(c *Ctx) {
	c.Rule("C08-R1", "every cells[] access is a range index or dominated by x>=0, y>=0, x<w, y<h with index y*w+x; cells, w, h are stored only in Resize, together, with make(w*h)")
	c.Rule("C08-R2", "Dirty reads both members of every curr/last pair; SetDirty(false) copies every curr to last; Resize copies every curr field and width and force-dirties")
	c.Rule("C08-R3", "Dirty tests the lock before any 'true' answer; UnlockCell force-dirties; Invalidate force-dirties every cell unconditionally")
	c.Rule("C08-R4", "SetContent stores a fresh copy of the combining runes; no function writes through a stored combining slice")
	c.Rule("C08-R5", "every function storing currStyle merges ColorNone foreground and background from the old style")
	c.Rule("C08-R6", "SetContent dirties every column covered by the old width before the width store")
	c.Rule("C08-R7", "width is recomputed from the rune stored in currMain (RuneWidth of the same value) or copied together with it")
	c.Rule("C08-R8", "Resize preserves the overlapping region: the copy of a surviving cell runs exactly for x below both widths and y below both heights")
	c.Expect("C08-R8", 1)
	c.Expect("C08-R1", 5)
	c.Expect("C08-R2", 9)
	c.Expect("C08-R3", 3)
	c.Expect("C08-R4", 2)
	c.Expect("C08-R5", 4)
	c.Expect("C08-R6", 1)
	c.Expect("C08-R7", 3)
	p := c.P("linux")
	if p == nil || p.Tcell == nil {
		c.Undecided("C08-R1", "package tcell", "-", "not loaded")
		return
	}
	c.Rule("C08-R9", "Dirty: a zero marker rune means dirty whatever the cell holds; the shown and the current combining runes are compared with their lengths")
	c.Expect("C08-R9", 2)
	checkDirtyDecisions(c, p, "C08-R9")
	c.Rule("C08-R10", "changing a wide rune dirties every column it covered whatever the base cell's own marker says: the neighbour-dirtying sites of SetContent and Fill are not control-dependent on lastMain")
	c.Expect("C08-R10", 1)
	checkWideDirtyIndependentOfMarker(c, p, "C08-R10")
	c.Rule("C08-R11", "GetContent returns what SetContent last stored: currMain receives the rune parameter and currComb a copy of the list parameter, for every in-range cell (decided by the range test alone, not by what the cell held or by its cached width)")
	c.Expect("C08-R11", 2)
	checkSetContentStoresWhatItIsGiven(c, p, "C08-R11")
	c.Rule("C08-R12", "Resize preserves the overlapping region, locks included: the cells that survive carry their lock flag into the new array (a surviving cell that comes out unlocked reports dirty although nothing was unlocked; = C13-R6)")
	c.Expect("C08-R12", 2)
	c.asRule("C13-R6", "C08-R12", func() { c13LockOwnership(c, p) })
	c.Rule("C08-R13", "the reported width is that of the rune under the setting tcell chooses at init: a width table built from the runewidth condition (CreateLUT) freezes the East Asian setting of that moment, so it is built only after the setting was decided")
	c.Expect("C08-R13", 1)
	checkWidthTableAfterSetting(c, p, "C08-R13")
	c.Rule("C08-R14", "a blank of width 1 for zero-width or control runes: GetContent returns as primary rune only ' ', zero, or the stored rune on a path where its width is not 0 and it is not a control (= C09-R2)")
	c.Expect("C08-R14", 2)
	c.asRule("C09-R2", "C08-R14", func() { c09Sanitiser(c, p) })
	c.Rule("C08-R15", "changing a wide rune also dirties every column it covered, whatever the lock of the base cell: the dirtying calls of SetContent are under no test of the lock flag")
	c.Expect("C08-R15", 1)
	checkWideDirtyIgnoresLock(c, p, "C08-R15")
	ms := cbMethods(p)
	for _, need := range []string{"SetContent", "GetContent", "Dirty", "SetDirty", "Invalidate", "Resize", "Fill", "LockCell", "UnlockCell"} {
		if ms[need] == nil {
			c.Undecided("C08-R1", "CellBuffer."+need, "-", "method not found")
			return
		}
	}
	c08Bounds(c, p, ms)
	c08Pairs(c, p, ms)
	c08Lock(c, p, ms)
	c08Alias(c, p, ms)
	c08Merge(c, p, ms)
	c08Wide(c, p, ms)
	c08FillAll(c, p, ms)
	c08Width(c, p, "C08-R7")
	checkResizeBounds(c, p, "C08-R8")
}

func c08Bounds(c *Ctx, p *Prog, ms map[string]*ssa.Function) {
	for _, name := range sortedKeys(ms) {
		fn := ms[name]
		n := 0
		eachInstr(fn, func(in ssa.Instruction) {
			ia, ok := in.(*ssa.IndexAddr)
			if !ok {
				return
			}
			ref, _, ok := loadedField(ia.X)
			if !ok || ref.String() != cbOwner+".cells" {
				return
			}
			n++
			key := fmt.Sprintf("%s:cells[%s]#%d", name, valName(ia.Index), n)
			// range loop index
			if isRangeIndex(ia.Index) {
				c.OK("C08-R1", key, p.pos(in.Pos()), "range index over the same slice")
				return
			}
			if isFullCountedIndex(ia.Index, ia.X) {
				c.OK("C08-R1", key, p.pos(in.Pos()), "counted index from 0 below len() of the same slice")
				return
			}
			// index must be y*cb.w + x
			bo, ok := ia.Index.(*ssa.BinOp)
			var xv, yv ssa.Value
			if ok && bo.Op == token.ADD {
				if mul, ok := bo.X.(*ssa.BinOp); ok && mul.Op == token.MUL {
					if r, _, ok := loadedField(mul.Y); ok && r.String() == cbOwner+".w" {
						yv, xv = mul.X, bo.Y
					}
				}
			}
			if xv == nil {
				c.Fail("C08-R1", key, p.pos(in.Pos()), "index is not of the form y*cb.w+x")
				return
			}
			g := guardsAt(in.Block())
			xn, yn := valName(xv), valName(yv)
			lowOK := func(v ssa.Value, n string) bool {
				return hasAtom(g, Atom{n, ">=", "0"}) || isInductionFromNonNeg(v)
			}
			okX := lowOK(xv, xn) && (hasAtom(g, Atom{n2(xn), "<", "cb.w"}) || belowFieldVia(in.Block(), xv, cbOwner, "w"))
			okY := lowOK(yv, yn) && (hasAtom(g, Atom{n2(yn), "<", "cb.h"}) || belowFieldVia(in.Block(), yv, cbOwner, "h"))
			gs := []string{}
			for _, a := range g {
				gs = append(gs, a.String())
			}
			c.Check(okX && okY, "C08-R1", key, p.pos(in.Pos()), fmt.Sprintf("x=%s y=%s guards: %s", xn, yn, strings.Join(gs, " ∧ ")))
		})
	}
	// writers of the shape fields
	writers := map[string]map[string]bool{}
	for _, fn := range p.modFns {
		if fn.Pkg != p.Tcell {
			continue
		}
		for _, f := range []string{"cells", "w", "h"} {
			if len(storesTo(fn, cbOwner, f)) > 0 {
				if writers[f] == nil {
					writers[f] = map[string]bool{}
				}
				writers[f][fn.Name()] = true
			}
		}
	}
	okW := true
	for _, f := range []string{"cells", "w", "h"} {
		if len(writers[f]) != 1 || !writers[f]["Resize"] {
			okW = false
		}
	}
	c.Check(okW, "C08-R1", "shape:only-Resize-writes", "-", fmt.Sprintf("writers: cells=%v w=%v h=%v", sortedKeys(writers["cells"]), sortedKeys(writers["w"]), sortedKeys(writers["h"])))
	rs := ms["Resize"]
	okShape := false
	detail := ""
	for _, st := range storesTo(rs, cbOwner, "cells") {
		v := derefCell(st.Val)
		if mk, ok := v.(*ssa.MakeSlice); ok {
			detail = valName(mk.Len)
			if detail == "(w*h)" || detail == "(h*w)" {
				okShape = true
			}
		}
	}
	for _, f := range []string{"w", "h"} {
		for _, st := range storesTo(rs, cbOwner, f) {
			if valName(st.Val) != f {
				okShape = false
				detail += " " + f + "=" + valName(st.Val)
			}
		}
	}
	c.Check(okShape, "C08-R1", "shape:len(cells)==w*h", p.pos(rs.Pos()), "Resize stores make([]cell, "+detail+") with w and h from its parameters")
}

func n2(s string) string { return s }

func c08Pairs(c *Ctx, p *Prog, ms map[string]*ssa.Function) {
	named := p.namedType(p.Tcell, "cell")
	if named == nil {
		c.Undecided("C08-R2", "type cell", "-", "not found")
		return
	}
	st := named.Underlying().(*types.Struct)
	var pairs []string
	for i := 0; i < st.NumFields(); i++ {
		n := st.Field(i).Name()
		if strings.HasPrefix(n, "curr") {
			suffix := strings.TrimPrefix(n, "curr")
			for j := 0; j < st.NumFields(); j++ {
				if st.Field(j).Name() == "last"+suffix {
					pairs = append(pairs, suffix)
				}
			}
		}
	}
	sort.Strings(pairs)
	if len(pairs) < 3 {
		c.Undecided("C08-R2", "pairs", "-", fmt.Sprintf("found curr/last pairs %v, expected Main, Comb, Style", pairs))
		return
	}
	dirty, setd, resize := ms["Dirty"], ms["SetDirty"], ms["Resize"]
	for _, sfx := range pairs {
		// Dirty reads both
		rc, rl := false, false
		for _, host := range dirtyHosts(dirty) {
			rc = rc || len(loadsOf(host, cellOwner, "curr"+sfx)) > 0
			rl = rl || len(loadsOf(host, cellOwner, "last"+sfx)) > 0
		}
		// the loaded values must feed a comparison that can lead to `return true`
		// … in one comparison (of the two values, of their elements, or handed together to a helper that
		// compares them) whose outcome reaches the answer
		cmpOK := dirtyComparesPair(dirty, sfx)
		c.Check(rc && rl && cmpOK, "C08-R2", "Dirty:compares:"+sfx, p.pos(dirty.Pos()), fmt.Sprintf("reads curr%s: %v, last%s: %v, compared with each other and the outcome reaches the answer: %v", sfx, rc, sfx, rl, cmpOK))
		// SetDirty(false): last := curr under dirty == false
		okCopy := false
		for _, s := range storesTo(setd, cellOwner, "last"+sfx) {
			if ref, _, ok := loadedField(s.Val); ok && ref.Name == "curr"+sfx {
				g := guardsAt(s.Block())
				if hasAtom(g, Atom{"dirty", "==", "false"}) || hasAtom(g, Atom{"dirty", "!=", "true"}) {
					okCopy = true
				}
			}
		}
		// and nothing else is ever stored there on the clean branch: the snapshot must be what Dirty compares with
		other := ""
		for _, s := range storesTo(setd, cellOwner, "last"+sfx) {
			if ref, _, ok := loadedField(s.Val); ok && ref.Name == "curr"+sfx {
				continue
			}
			g := guardsAt(s.Block())
			if k, isK := constInt(s.Val); isK && k == 0 && (hasAtom(g, Atom{"dirty", "==", "true"}) || hasAtom(g, Atom{"dirty", "!=", "false"})) {
				continue // the force-dirty marker
			}
			other += "last" + sfx + " also receives " + valName(s.Val) + " at " + p.pos(s.Pos()) + "; "
			okCopy = false
		}
		c.Check(okCopy, "C08-R2", "SetDirty(false):copies:"+sfx, p.pos(setd.Pos()), "last"+sfx+" = curr"+sfx+" on the clean branch, and nothing else "+other)
		// Resize copies curr
		okRes := false
		for _, s := range storesTo(resize, cellOwner, "curr"+sfx) {
			if ref, _, ok := loadedField(s.Val); ok && ref.Name == "curr"+sfx {
				okRes = true
			}
		}
		c.Check(okRes, "C08-R2", "Resize:copies:"+sfx, p.pos(resize.Pos()), "curr"+sfx+" preserved for the overlapping region")
	}
	// Resize: width copied, lastMain zeroed
	okW := false
	for _, s := range storesTo(resize, cellOwner, "width") {
		if ref, _, ok := loadedField(s.Val); ok && ref.Name == "width" {
			okW = true
		}
	}
	okF := false
	for _, s := range storesTo(resize, cellOwner, "lastMain") {
		if k, ok := constInt(s.Val); ok && k == 0 {
			okF = true
		}
	}
	// a freshly made slice is zeroed, so lastMain==0 also holds without the store
	if !okF {
		for _, s := range storesTo(resize, cbOwner, "cells") {
			if _, ok := derefCell(s.Val).(*ssa.MakeSlice); ok {
				okF = len(storesTo(resize, cellOwner, "lastMain")) == 0
			}
		}
	}
	c.Check(okW && okF, "C08-R2", "Resize:width+force-dirty", p.pos(resize.Pos()), fmt.Sprintf("width copied: %v; surviving cells force-dirty: %v", okW, okF))
	// no path may carry whole cells (with their last* and lock state) into the new buffer:
	// the new buffer is filled field by field with the current content only
	bulk := ""
	nCellStores := 0
	for _, fn := range p.modFns {
		if fn.Pkg != p.Tcell {
			continue
		}
		eachInstr(fn, func(in ssa.Instruction) {
			if cc := callCommon(in); cc != nil {
				if bi, ok := cc.Value.(*ssa.Builtin); ok && bi.Name() == "copy" && len(cc.Args) == 2 {
					if sl, ok := cc.Args[0].Type().Underlying().(*types.Slice); ok && typeName(sl.Elem()) == cellOwner {
						bulk += fmt.Sprintf("%s copies a slice of cells at %s; ", fn.Name(), p.pos(in.Pos()))
					}
				}
			}
			if st, ok := in.(*ssa.Store); ok && typeName(st.Val.Type()) == cellOwner {
				if freshCellLiteral(st.Val) {
					return // a cell built field by field that leaves the last* fields zero: no clean-mark travels
				}
				nCellStores++
				bulk += fmt.Sprintf("%s stores a whole cell at %s; ", fn.Name(), p.pos(in.Pos()))
			}
		})
	}
	c.Check(bulk == "", "C08-R2", "cells:no-whole-cell-copy", p.pos(resize.Pos()), "cells are never copied wholesale (that would carry the clean-mark and lock of the old cell along) "+bulk)
	// every store of cb.cells in Resize is a freshly made slice
	okFresh := true
	for _, s := range storesTo(resize, cbOwner, "cells") {
		if _, ok := derefCell(s.Val).(*ssa.MakeSlice); !ok {
			okFresh = false
		}
	}
	c.Check(okFresh, "C08-R2", "Resize:fresh-buffer", p.pos(resize.Pos()), "Resize installs a freshly made (all force-dirty, unlocked) slice")
}

func c08Lock(c *Ctx, p *Prog, ms map[string]*ssa.Function) {
	dirty := ms["Dirty"]
	// every return of a possibly-true value is dominated by the false edge of the lock test
	ok := true
	n := 0
	checkBlock := func(b *ssa.BasicBlock) {
		n++
		g := guardsAt(b)
		found := false
		for _, a := range g {
			if strings.HasSuffix(a.L, ".lock") && ((a.Op == "==" && a.R == "false") || (a.Op == "!=" && a.R == "true")) {
				found = true
			}
		}
		if !found {
			ok = false
		}
	}
	for _, r := range returnsOf(dirty) {
		if len(r.Results) != 1 {
			continue
		}
		if v, isC := constBool(r.Results[0]); isC {
			if v {
				checkBlock(r.Block())
			}
			continue
		}
		if phi, isPhi := r.Results[0].(*ssa.Phi); isPhi {
			for i, e := range phi.Edges {
				if v, isC := constBool(e); isC && !v {
					continue
				}
				checkBlock(phi.Block().Preds[i])
			}
			continue
		}
		// a computed answer (`return !equal(last, curr)`): it may be true, so it has to be computed
		// behind the lock test as well
		checkBlock(r.Block())
	}
	c.Check(ok && n > 0, "C08-R3", "Dirty:lock-first", p.pos(dirty.Pos()), fmt.Sprintf("%d 'dirty' answers, all under the not-locked edge", n))
	// UnlockCell: stores lock=false and calls SetDirty(x,y,true)
	un := ms["UnlockCell"]
	okU := false
	for _, call := range callsIn(un, func(n string, cc *ssa.CallCommon) bool { return strings.HasSuffix(n, "CellBuffer).SetDirty") }) {
		cc := callCommon(call)
		if v, isC := constBool(cc.Args[3]); isC && v && valName(cc.Args[1]) == "x" && valName(cc.Args[2]) == "y" {
			// reached on every in-range path: the lock=false store dominates it or vice versa
			for _, s := range storesTo(un, cellOwner, "lock") {
				if v2, isC2 := constBool(s.Val); isC2 && !v2 && (instrDominates(s, call) || instrDominates(call, s)) {
					okU = true
				}
			}
		}
	}
	// … or does what SetDirty(true) does itself: lastMain = 0 on the very cell whose lock it clears
	for _, s := range storesTo(un, cellOwner, "lock") {
		v2, isC2 := constBool(s.Val)
		if !isC2 || v2 {
			continue
		}
		_, cellOfLock, _ := fieldAddrRef(s.Addr)
		for _, d := range storesTo(un, cellOwner, "lastMain") {
			_, cellOfDirty, _ := fieldAddrRef(d.Addr)
			if k, isK := constInt(d.Val); isK && k == 0 && cellOfLock != nil && (cellOfLock == cellOfDirty || sameValue(cellOfLock, cellOfDirty)) && (instrDominates(s, d) || instrDominates(d, s)) {
				okU = true
			}
		}
	}
	c.Check(okU, "C08-R3", "UnlockCell:force-dirty", p.pos(un.Pos()), "lock cleared together with SetDirty(x,y,true) (or lastMain = 0 on the same cell)")
	// LockCell stores lock=true
	lk := ms["LockCell"]
	okL := false
	for _, s := range storesTo(lk, cellOwner, "lock") {
		if v, isC := constBool(s.Val); isC && v {
			okL = true
		}
	}
	c.Check(okL, "C08-R3", "LockCell:sets-lock", p.pos(lk.Pos()), "lock set")
	// Invalidate: range loop over cells storing 0 to lastMain, store not under any data-dependent guard
	inv := ms["Invalidate"]
	okI := false
	for _, s := range storesTo(inv, cellOwner, "lastMain") {
		if k, isC := constInt(s.Val); isC && k == 0 {
			if fa, isFA := s.Addr.(*ssa.FieldAddr); isFA {
				if ia, isIA := fa.X.(*ssa.IndexAddr); isIA && (isRangeIndex(ia.Index) || isFullCountedIndex(ia.Index, ia.X)) {
					// guards: only the loop condition
					extra := 0
					for _, g := range guardsAt(s.Block()) {
						if !strings.Contains(g.R, "len(") && !strings.Contains(g.L, "len(") {
							extra++
						}
					}
					okI = extra == 0
				}
			}
		}
	}
	c.Check(okI, "C08-R3", "Invalidate:every-cell", p.pos(inv.Pos()), "force-dirty marker stored for every element of cells, unconditionally")
}

func c08Alias(c *Ctx, p *Prog, ms map[string]*ssa.Function) {
	sc := ms["SetContent"]
	okCopy := false
	detail := ""
	for _, s := range storesTo(sc, cellOwner, "currComb") {
		detail = valName(s.Val)
		if call, ok := s.Val.(*ssa.Call); ok {
			if b, ok := call.Call.Value.(*ssa.Builtin); ok && b.Name() == "append" {
				// first argument must be a fresh (literal) slice, not the parameter
				if sl, ok := call.Call.Args[0].(*ssa.Slice); ok {
					if _, ok := sl.X.(*ssa.Alloc); ok {
						okCopy = true
					}
				}
				if k, ok := call.Call.Args[0].(*ssa.Const); ok && k.Value == nil {
					okCopy = true // append([]rune(nil), combc...)
				}
				if mk, ok := call.Call.Args[0].(*ssa.MakeSlice); ok {
					_ = mk
					okCopy = true
				}
			}
			if b, ok := call.Call.Value.(*ssa.Builtin); ok && b.Name() == "copy" {
				okCopy = true
			}
		}
		if _, isParam := s.Val.(*ssa.Parameter); isParam {
			okCopy = false
		}
	}
	c.Check(okCopy, "C08-R4", "SetContent:copies-combining", p.pos(sc.Pos()), "value stored to currComb: "+detail)
	// nobody writes through stored combining slices
	bad := []string{}
	for _, fn := range p.modFns {
		if fn.Pkg != p.Tcell {
			continue
		}
		eachInstr(fn, func(in ssa.Instruction) {
			st, ok := in.(*ssa.Store)
			if !ok {
				return
			}
			if ia, ok := st.Addr.(*ssa.IndexAddr); ok {
				if ref, _, ok := loadedField(ia.X); ok && ref.Owner == cellOwner && (ref.Name == "currComb" || ref.Name == "lastComb") {
					bad = append(bad, fn.Name()+"@"+p.pos(in.Pos()))
				}
			}
		})
	}
	c.Check(len(bad) == 0, "C08-R4", "combining:never-written-through", "-", fmt.Sprintf("element stores through currComb/lastComb: %v (curr and last share the slice, so such a store would corrupt the clean snapshot)", bad))
}

func c08Merge(c *Ctx, p *Prog, ms map[string]*ssa.Function) {
	pk := p.pkg("")
	noneObj, _ := pk.Types.Scope().Lookup("ColorNone").(*types.Const)
	if noneObj == nil {
		c.Undecided("C08-R5", "ColorNone", "-", "constant not found")
		return
	}
	none := noneObj.Val().ExactString()
	for _, name := range sortedKeys(ms) {
		fn := ms[name]
		if len(storesTo(fn, cellOwner, "currStyle")) == 0 {
			continue
		}
		if name == "Resize" {
			continue // copies whole cells
		}
		at := atomsOf(fn)
		// the merge may be done by a helper (inheritColors(style, c.currStyle)): its tests count, and a
		// component read from the parameter that receives the cell's current style is "the old colour"
		type helperUse struct {
			h       *ssa.Function
			oldPrms map[*ssa.Parameter]bool
		}
		var helpers []helperUse
		eachInstr(fn, func(in ssa.Instruction) {
			cc := callCommon(in)
			if cc == nil {
				return
			}
			h := cc.StaticCallee()
			if h == nil || h.Pkg != p.Tcell || len(h.Blocks) == 0 {
				return
			}
			old := map[*ssa.Parameter]bool{}
			for i, a := range cc.Args {
				if r2, _, okR := loadedField(a); okR && r2.Name == "currStyle" && i < len(h.Params) {
					old[h.Params[i]] = true
				}
			}
			if len(old) > 0 {
				helpers = append(helpers, helperUse{h, old})
				for a := range atomsOf(h) {
					at[a] = true
				}
			}
		})
		for _, comp := range []string{"fg", "bg"} {
			found := false
			for a := range at {
				if strings.Contains(a, "."+comp+" == "+none) || strings.Contains(a, "."+comp+" != "+none) {
					found = true
				}
			}
			// and the merged value comes from the cell's current style
			fromOld := false
			eachInstr(fn, func(in ssa.Instruction) {
				if u, ok := in.(*ssa.UnOp); ok && u.Op == token.MUL {
					if fa, ok := u.X.(*ssa.FieldAddr); ok {
						if r, base, ok := fieldAddrRef(fa); ok && r.Name == comp && r.Owner == "tcell.Style" {
							if r2, _, ok := fieldAddrRef(base); ok && r2.Name == "currStyle" {
								fromOld = true
							}
						}
					}
				}
			})
			for _, hu := range helpers {
				eachInstr(hu.h, func(in ssa.Instruction) {
					// prev.fg where prev is the parameter bound to the current style (value struct: Field;
					// or spilled to a local cell: FieldAddr of the cell)
					switch x := in.(type) {
					case *ssa.Field:
						if prm, isP := derefCell(x.X).(*ssa.Parameter); isP && hu.oldPrms[prm] {
							if r, _, okR := fieldValRef(x); okR && r.Name == comp {
								fromOld = true
							}
						}
					case *ssa.FieldAddr:
						if al, isAl := x.X.(*ssa.Alloc); isAl {
							if prm, isP := derefCell(&ssa.UnOp{Op: token.MUL, X: al}).(*ssa.Parameter); isP && hu.oldPrms[prm] {
								if r, _, okR := fieldAddrRef(x); okR && r.Name == comp {
									fromOld = true
								}
							}
							// the spill cell of the parameter
							for _, r := range referrers(al) {
								if st, isSt := r.(*ssa.Store); isSt && st.Addr == ssa.Value(al) {
									if prm, isP := st.Val.(*ssa.Parameter); isP && hu.oldPrms[prm] {
										if rr, _, okR := fieldAddrRef(x); okR && rr.Name == comp {
											fromOld = true
										}
									}
								}
							}
						}
					}
				})
			}
			c.Check(found && fromOld, "C08-R5", name+":ColorNone-merge:"+comp, p.pos(fn.Pos()), fmt.Sprintf("tests %s == ColorNone: %v; takes the old %s from currStyle: %v", comp, found, comp, fromOld))
		}
		// the test must look at the caller's style for every cell: when the merge works on a local
		// copy, the copy is taken afresh on every cycle through the test (a copy made once before a
		// loop is no longer ColorNone after the first cell, and the first cell's colour is smeared)
		eachInstr(fn, func(in ssa.Instruction) {
			bo, ok := in.(*ssa.BinOp)
			if !ok || (bo.Op != token.EQL && bo.Op != token.NEQ) {
				return
			}
			if k, isK := bo.Y.(*ssa.Const); !isK || k.Value == nil || k.Value.ExactString() != none {
				return
			}
			ld, ok := bo.X.(*ssa.UnOp)
			if !ok || ld.Op != token.MUL {
				return
			}
			fa, ok := ld.X.(*ssa.FieldAddr)
			if !ok {
				return
			}
			al, ok := fa.X.(*ssa.Alloc)
			if !ok {
				return
			}
			ref, _, _ := fieldAddrRef(fa)
			// whole-value initialisations of the copy
			var inits []*ssa.Store
			for _, r := range referrers(al) {
				if st, ok := r.(*ssa.Store); ok && st.Addr == ssa.Value(al) {
					inits = append(inits, st)
				}
			}
			okFresh := len(inits) > 0
			for _, st := range inits {
				if !st.Block().Dominates(bo.Block()) || !everyCycleThrough(bo.Block(), st.Block()) {
					okFresh = false
				}
			}
			c.Check(okFresh, "C08-R5", name+":ColorNone-test-on-fresh-copy:"+ref.Name, p.pos(bo.Pos()), "the style tested against ColorNone is (re)initialised from the argument on every cycle through the test")
		})
	}
}

func c08Wide(c *Ctx, p *Prog, ms map[string]*ssa.Function) {
	// every method that replaces a cell's rune must dirty the columns a wide rune covered,
	// before it overwrites the width that says how many there were.  Resize builds a fresh
	// (all dirty) buffer; SetDirty's zero-rune rewrite does not change what is displayed.
	for _, name := range sortedKeys(ms) {
		fn := ms[name]
		if name == "Resize" || name == "SetDirty" || len(storesTo(fn, cellOwner, "currMain")) == 0 {
			continue
		}
		var site ssa.Instruction
		widthNames := map[string]bool{} // parameters of a helper that are bound to the width at its call
		widthBounded := func(b *ssa.BasicBlock) bool {
			for _, a := range guardsAt(b) {
				if (a.Op == "<" && (strings.HasSuffix(a.R, ".width") || widthNames[a.R])) || (a.Op == ">" && (strings.HasSuffix(a.L, ".width") || widthNames[a.L])) {
					return true
				}
			}
			return false
		}
		findSite := func(f *ssa.Function) ssa.Instruction {
			var out ssa.Instruction
			for _, call := range callsIn(f, func(n string, cc *ssa.CallCommon) bool { return strings.HasSuffix(n, "CellBuffer).SetDirty") }) {
				cc := callCommon(call)
				if v, ok := constBool(cc.Args[3]); ok && v {
					if bo, ok := cc.Args[1].(*ssa.BinOp); ok && bo.Op == token.ADD && widthBounded(call.Block()) {
						out = call
					}
				}
			}
			// or a direct force-dirty store (lastMain = 0) into a neighbouring cell, bounded by the width
			for _, st := range storesTo(f, cellOwner, "lastMain") {
				if k, ok := constInt(st.Val); ok && k == 0 && widthBounded(st.Block()) {
					out = st
				}
			}
			return out
		}
		site = findSite(fn)
		if site == nil {
			// the dirtying in a helper of the cell buffer: the site is the call of that helper
			for _, call := range callsIn(fn, func(_ string, cc *ssa.CallCommon) bool {
				h := cc.StaticCallee()
				return h != nil && h != fn && len(h.Blocks) > 0 && recvTypeName(h) == "tcell.CellBuffer"
			}) {
				h := callCommon(call).StaticCallee()
				widthNames = map[string]bool{}
				for i, a := range callCommon(call).Args {
					if i < len(h.Params) && strings.HasSuffix(valName(a), ".width") {
						widthNames[h.Params[i].Name()] = true
					}
				}
				if findSite(h) != nil {
					site = call
				}
				widthNames = map[string]bool{}
			}
		}
		key := name + ":wide-dirty-loop"
		if site == nil {
			c.Fail("C08-R6", key, p.pos(fn.Pos()), name+" replaces the rune of a cell but never dirties the columns a wide rune covered (no SetDirty(x+i, y, true) / lastMain = 0 for i < c.width)")
			continue
		}
		ok := true
		// within the treatment of one cell no width store may run before the dirtying: paths are
		// followed without crossing the header of a loop over the cells
		avoid := map[*ssa.BasicBlock]bool{}
		for _, h := range cellLoopHeaders(fn) {
			avoid[h] = true
		}
		for _, st := range storesTo(fn, cellOwner, "width") {
			seen := map[*ssa.BasicBlock]bool{}
			var reach func(b *ssa.BasicBlock, from int) bool
			reach = func(b *ssa.BasicBlock, from int) bool {
				for k := from; k < len(b.Instrs); k++ {
					if b.Instrs[k] == site {
						return true
					}
				}
				for _, sc := range b.Succs {
					if seen[sc] || avoid[sc] {
						continue
					}
					seen[sc] = true
					if reach(sc, 0) {
						return true
					}
				}
				return false
			}
			if reach(st.Block(), instrIndex(st)+1) {
				ok = false
			}
		}
		cmp := false
		for a := range atomsOf(fn) {
			if strings.Contains(a, "currMain") {
				cmp = true
			}
		}
		c.Check(ok && cmp, "C08-R6", key, p.pos(site.Pos()), fmt.Sprintf("covered columns dirtied before the width store: %v; entered on a comparison with the current rune: %v", ok, cmp))
	}
}

// c08Width: shared with C09-R3.
func c08Width(c *Ctx, p *Prog, rule string) {
	n := 0
	for _, fn := range p.modFns {
		if fn.Pkg != p.Tcell {
			continue
		}
		stores := storesTo(fn, cellOwner, "currMain")
		if len(stores) == 0 {
			continue
		}
		short := fn.RelString(p.Tcell.Pkg)
		for i, s := range stores {
			n++
			key := fmt.Sprintf("%s:currMain-store#%d", short, i+1)
			v := s.Val
			ok := false
			why := ""
			for _, ws := range storesTo(fn, cellOwner, "width") {
				// (a) width = RuneWidth(v) of the same value
				if call, isCall := ws.Val.(*ssa.Call); isCall && isRuneWidthCall(call, v) {
					if len(call.Call.Args) == 1 && call.Call.Args[0] == v {
						// either unconditional w.r.t. the rune store, or guarded by currMain != v
						if instrDominates(ws, s) || instrDominates(s, ws) || call.Block().Dominates(s.Block()) {
							ok, why = true, "width = RuneWidth(same value)"
						} else {
							g := guardsAt(ws.Block())
							for _, a := range g {
								if a.Op == "!=" && (strings.HasSuffix(a.L, ".currMain") && a.R == valName(v) || strings.HasSuffix(a.R, ".currMain") && a.L == valName(v)) {
									ok, why = true, "width = RuneWidth(same value) whenever the rune differs"
								}
							}
						}
					}
				}
				// (b) both copied from one source cell
				if r1, b1, ok1 := loadedField(ws.Val); ok1 && r1.Name == "width" {
					if r2, b2, ok2 := loadedField(v); ok2 && r2.Name == "currMain" && b1 == b2 {
						ok, why = true, "rune and width copied from the same source cell"
					}
				}
			}
			// RuneWidth hoisted out of a loop: width store value is a Call result computed once from the same value
			if !ok {
				// (c) the one benign rewrite: SetDirty replaces the zero rune by a blank when marking clean
				if short == "(*CellBuffer).SetDirty" {
					if k, isC := constInt(v); isC && k == ' ' {
						g := guardsAt(s.Block())
						for _, a := range g {
							if strings.HasSuffix(a.L, ".currMain") && a.Op == "==" && a.R == "0" {
								ok, why = true, "exception: zero rune → blank on the clean branch (both are shown as a blank of width 1)"
								c.Exception("(*CellBuffer).SetDirty: currMain = ' ' when it was 0 — a blank has width 1 and GetContent maps width 0 to (' ',1), observably identical")
							}
						}
					}
				}
			}
			if !ok {
				why = "currMain is stored but width is not recomputed from the same rune: a non-printing or wide rune keeps a stale width (control runes reach the terminal, wide runes overlap)"
			}
			c.Check(ok, rule, key, p.pos(s.Pos()), why)
		}
		// every store to width in such a function is of an approved kind: a path that
		// stores some other width lets a non-printing rune through with a printing width
		for j, ws := range storesTo(fn, cellOwner, "width") {
			key := fmt.Sprintf("%s:width-store#%d", short, j+1)
			okW, why := false, ""
			if call, isCall := ws.Val.(*ssa.Call); isCall && len(call.Call.Args) == 1 {
				for _, s := range stores {
					if isRuneWidthCall(call, s.Val) {
						okW, why = true, "RuneWidth of the rune stored to currMain"
					}
				}
			}
			if r1, _, ok1 := loadedField(ws.Val); ok1 && r1.Name == "width" {
				okW, why = true, "copied from a source cell"
			}
			if k, isC := constInt(ws.Val); isC && !okW {
				// a constant width is right only for runes proven printable ASCII (0x20..0x7e):
				// DEL, C0 and C1 controls have width 0
				lo, hi := int64(-1), int64(1<<31)
				for _, g := range rawGuardsAt(ws.Block()) {
					bo, isBO := g.Cond.(*ssa.BinOp)
					if !isBO {
						continue
					}
					isRune := false
					for _, s := range stores {
						if bo.X == s.Val {
							isRune = true
						}
					}
					kk, isK := constInt(bo.Y)
					if !isRune || !isK {
						continue
					}
					op := bo.Op
					if !g.Positive {
						switch op {
						case token.LSS:
							op = token.GEQ
						case token.LEQ:
							op = token.GTR
						case token.GTR:
							op = token.LEQ
						case token.GEQ:
							op = token.LSS
						default:
							continue
						}
					}
					switch op {
					case token.GEQ:
						if kk > lo {
							lo = kk
						}
					case token.GTR:
						if kk+1 > lo {
							lo = kk + 1
						}
					case token.LSS:
						if kk-1 < hi {
							hi = kk - 1
						}
					case token.LEQ:
						if kk < hi {
							hi = kk
						}
					}
				}
				if k == 1 && lo >= 0x20 && hi <= 0x7e {
					okW, why = true, fmt.Sprintf("constant 1 for runes in %#x..%#x (printable ASCII)", lo, hi)
				} else {
					why = fmt.Sprintf("constant width %d for runes in %#x..%#x: not all of them are printable single-column characters (DEL and control characters have width 0)", k, lo, hi)
				}
			}
			if !okW && why == "" {
				why = "width stored from " + valName(ws.Val) + ", which is neither RuneWidth of the stored rune nor a copy"
			}
			c.Check(okW, rule, key, p.pos(ws.Pos()), why)
		}
	}
	if n < 3 {
		c.Undecided(rule, "currMain stores", "-", fmt.Sprintf("only %d stores to cell.currMain found", n))
	}
}

// everyCycleThrough: every control-flow cycle through block site passes through block must.
func everyCycleThrough(site, must *ssa.BasicBlock) bool {
	if site == must {
		return true
	}
	seen := map[*ssa.BasicBlock]bool{}
	stack := append([]*ssa.BasicBlock{}, site.Succs...)
	for len(stack) > 0 {
		b := stack[len(stack)-1]
		stack = stack[:len(stack)-1]
		if seen[b] || b == must {
			continue
		}
		seen[b] = true
		if b == site {
			return false
		}
		stack = append(stack, b.Succs...)
	}
	return true
}

// c08FillAll: Fill stores rune, (empty) combining list, style and width into every
// cell; none of the four stores may be skipped for a cell on account of what it holds
// (a cell that matches in rune and style may still carry combining runes).
func c08FillAll(c *Ctx, p *Prog, ms map[string]*ssa.Function) {
	fn := ms["Fill"]
	if fn == nil {
		c.Undecided("C08-R2", "Fill", "-", "not found")
		return
	}
	var hdr *ssa.BasicBlock
	for _, h := range cellLoopHeaders(fn) {
		hdr = h
	}
	if hdr == nil {
		c.Undecided("C08-R2", "Fill:loop", p.pos(fn.Pos()), "loop over the cells not found")
		return
	}
	bad := ""
	for _, f := range []string{"currMain", "currComb", "currStyle", "width"} {
		sts := storesTo(fn, cellOwner, f)
		ok := false
		for _, st := range sts {
			if everyCycleThrough(hdr, st.Block()) {
				ok = true
			}
		}
		if !ok {
			bad += f + " is not stored for every cell; "
		}
	}
	c.Check(bad == "", "C08-R2", "Fill:stores-every-cell", p.pos(fn.Pos()), "every pass of the loop over the cells stores rune, combining list, style and width "+bad)
}

// isRuneWidthCall: v is the width of rune `of`: go-runewidth's RuneWidth(of), or a package-local
// wrapper around it that may only lower the answer to 0 (a blank) for some runes.
func isRuneWidthCall(v ssa.Value, of ssa.Value) bool {
	call, ok := v.(*ssa.Call)
	if !ok || len(call.Call.Args) != 1 || call.Call.Args[0] != of {
		return false
	}
	if strings.HasSuffix(calleeName(&call.Call), "go-runewidth.RuneWidth") {
		return true
	}
	f := staticCallee(&call.Call)
	if f == nil || len(f.Params) != 1 || len(f.Blocks) == 0 {
		return false
	}
	n := 0
	for _, r := range returnsOf(f) {
		if len(r.Results) != 1 {
			return false
		}
		res := r.Results[0]
		if k, isK := constInt(res); isK {
			if k != 0 {
				return false // a wrapper may blank a rune, it may not give it columns
			}
			continue
		}
		inner, isCall := res.(*ssa.Call)
		if !isCall || !strings.HasSuffix(calleeName(&inner.Call), "go-runewidth.RuneWidth") || inner.Call.Args[0] != ssa.Value(f.Params[0]) {
			return false
		}
		n++
	}
	return n > 0
}

// isFullCountedIndex: idx is the variable of `for i := 0; i < len(s); i++` over the very slice value s.
func isFullCountedIndex(idx ssa.Value, s ssa.Value) bool {
	phi, ok := idx.(*ssa.Phi)
	if !ok || !isInductionFromNonNeg(phi) {
		return false
	}
	for _, r := range referrers(phi) {
		bo, isBO := r.(*ssa.BinOp)
		if !isBO || bo.Op != token.LSS || bo.X != ssa.Value(phi) {
			continue
		}
		call, isCall := bo.Y.(*ssa.Call)
		if !isCall {
			continue
		}
		if b, isB := call.Call.Value.(*ssa.Builtin); isB && b.Name() == "len" && sameValue(call.Call.Args[0], s) {
			// the test is the loop's own condition: it sits in the block of the phi
			if bo.Block() == phi.Block() {
				return true
			}
		}
	}
	return false
}

// belowFieldVia: at block b, v < K holds for a K that is itself at most the field owner.field:
// K is the field's value, or a minimum written out as `k := cb.w; if w < k { k = w }` (a phi each of
// whose edges is the field's value or a value known smaller on that edge).
func belowFieldVia(b *ssa.BasicBlock, v ssa.Value, owner, field string) bool {
	isField := func(x ssa.Value) bool {
		r, _, ok := loadedField(x)
		return ok && r.Owner == owner && r.Name == field
	}
	atMostField := func(k ssa.Value) bool {
		if isField(k) {
			return true
		}
		phi, ok := k.(*ssa.Phi)
		if !ok {
			return false
		}
		for i, e := range phi.Edges {
			if isField(e) {
				continue
			}
			okEdge := false
			pred := phi.Block().Preds[i]
			less := func(a Atom) bool {
				// e < field, e <= field (either orientation)
				if a.L == valName(e) && (a.Op == "<" || a.Op == "<=") && strings.HasSuffix(a.R, "."+field) {
					return true
				}
				if a.R == valName(e) && (a.Op == ">" || a.Op == ">=") && strings.HasSuffix(a.L, "."+field) {
					return true
				}
				// compared with the running minimum, which is at most the field already
				return false
			}
			for _, a := range guardsAt(pred) {
				if less(a) {
					okEdge = true
				}
			}
			if !okEdge && len(pred.Instrs) > 0 {
				if iff, isIf := pred.Instrs[len(pred.Instrs)-1].(*ssa.If); isIf {
					for _, g := range expandCond(iff.Cond, pred.Succs[0] == phi.Block(), 0) {
						if at, okA := condAtom(g.Cond, g.Positive); okA && less(at) {
							okEdge = true
						}
						// `if w < keepW { keepW = w }` where keepW was initialised from the field: the
						// comparison is with another value that is at most the field
						if bo, isBO := g.Cond.(*ssa.BinOp); isBO && g.Positive && bo.Op == token.LSS && bo.X == e {
							if isField(bo.Y) {
								okEdge = true
							}
						}
					}
				}
			}
			if !okEdge {
				return false
			}
		}
		return len(phi.Edges) > 0
	}
	for _, g := range rawGuardsAt(b) {
		bo, ok := g.Cond.(*ssa.BinOp)
		if !ok {
			continue
		}
		switch {
		case bo.Op == token.LSS && g.Positive && bo.X == v && atMostField(bo.Y):
			return true
		case bo.Op == token.GTR && g.Positive && bo.Y == v && atMostField(bo.X):
			return true
		case bo.Op == token.GEQ && !g.Positive && bo.X == v && atMostField(bo.Y):
			return true
		}
	}
	return false
}

// freshCellLiteral: v is a cell value built on the spot as a composite literal (go/ssa: a local
// "complit" cell with field stores, then loaded) that does not set any of the last* fields.
func freshCellLiteral(v ssa.Value) bool {
	u, ok := v.(*ssa.UnOp)
	if !ok || u.Op != token.MUL {
		return false
	}
	al, ok := u.X.(*ssa.Alloc)
	if !ok {
		return false
	}
	for _, r := range referrers(al) {
		switch x := r.(type) {
		case *ssa.FieldAddr:
			ref, _, okR := fieldAddrRef(x)
			if !okR {
				return false
			}
			if strings.HasPrefix(ref.Name, "last") {
				for _, r2 := range referrers(x) {
					if st, isSt := r2.(*ssa.Store); isSt && st.Addr == ssa.Value(x) {
						if k, isK := constInt(st.Val); !isK || k != 0 {
							return false
						}
					}
				}
			}
		case *ssa.UnOp:
		case *ssa.Store:
			if x.Addr == ssa.Value(al) {
				return false // initialised from another whole cell
			}
		case *ssa.DebugRef:
		default:
			return false
		}
	}
	return true
}

// dirtyComparesPair: Dirty compares last<sfx> with curr<sfx> — the two loaded values in one == / !=,
// their elements, reflect.DeepEqual of both, or a module helper that is handed both and compares its
// two parameters — and the outcome of that comparison is connected to the value Dirty returns (as a
// branch condition on the way to a return, as an operand of the returned expression).
func dirtyComparesPair(dirty *ssa.Function, sfx string) bool {
	for _, host := range dirtyHosts(dirty) {
		if dirtyComparesPairIn(host, sfx) {
			return true
		}
	}
	return false
}

// dirtyHosts: Dirty and the helpers its answer comes from (`return c.stale()`): same-package functions it
// calls whose result is connected to what it returns.
func dirtyHosts(dirty *ssa.Function) []*ssa.Function {
	out := []*ssa.Function{dirty}
	seen := map[*ssa.Function]bool{dirty: true}
	for i := 0; i < len(out) && i < 4; i++ {
		eachInstr(out[i], func(in ssa.Instruction) {
			call, ok := in.(*ssa.Call)
			if !ok {
				return
			}
			h := call.Call.StaticCallee()
			if h == nil || h.Pkg != dirty.Pkg || len(h.Blocks) == 0 || seen[h] {
				return
			}
			if bt, isB := call.Type().Underlying().(*types.Basic); !isB || bt.Kind() != types.Bool {
				return
			}
			seen[h] = true
			out = append(out, h)
		})
	}
	return out
}

func dirtyComparesPairIn(dirty *ssa.Function, sfx string) bool {
	isLoad := func(v ssa.Value, name string) bool {
		ref, _, ok := loadedField(stripConv(v))
		return ok && ref.Owner == cellOwner && ref.Name == name
	}
	elemOf := func(v ssa.Value, name string) bool { // v = (load name)[i]
		u, ok := stripConv(v).(*ssa.UnOp)
		if !ok || u.Op != token.MUL {
			return false
		}
		ia, ok := u.X.(*ssa.IndexAddr)
		return ok && isLoad(ia.X, name)
	}
	both := func(x, y ssa.Value, f func(ssa.Value, string) bool) bool {
		return (f(x, "last"+sfx) && f(y, "curr"+sfx)) || (f(x, "curr"+sfx) && f(y, "last"+sfx))
	}
	// connected to the returned value
	var connected func(v ssa.Value, seen map[ssa.Value]bool) bool
	connected = func(v ssa.Value, seen map[ssa.Value]bool) bool {
		if seen[v] {
			return false
		}
		seen[v] = true
		for _, r := range referrers(v) {
			switch x := r.(type) {
			case *ssa.Return:
				return true
			case *ssa.If:
				// a branch in a function whose answers are decided by branches: some return follows
				for _, ret := range returnsOf(x.Parent()) {
					if reachableAfter(x, ret) {
						return true
					}
				}
			case ssa.Value:
				if connected(x, seen) {
					return true
				}
			}
		}
		return false
	}
	found := false
	eachInstr(dirty, func(in ssa.Instruction) {
		switch x := in.(type) {
		case *ssa.BinOp:
			if x.Op != token.EQL && x.Op != token.NEQ {
				return
			}
			if (both(x.X, x.Y, isLoad) || both(x.X, x.Y, elemOf)) && connected(x, map[ssa.Value]bool{}) {
				found = true
			}
		case *ssa.Call:
			if len(x.Call.Args) < 2 {
				return
			}
			a0, a1 := x.Call.Args[len(x.Call.Args)-2], x.Call.Args[len(x.Call.Args)-1]
			if mi, ok := a0.(*ssa.MakeInterface); ok {
				a0 = mi.X
			}
			if mi, ok := a1.(*ssa.MakeInterface); ok {
				a1 = mi.X
			}
			if !both(a0, a1, isLoad) || !connected(x, map[ssa.Value]bool{}) {
				return
			}
			if calleeName(&x.Call) == "reflect.DeepEqual" {
				found = true
				return
			}
			// a module helper comparing its two (last) parameters element by element
			h := x.Call.StaticCallee()
			if h == nil || h.Pkg != dirty.Pkg || len(h.Blocks) == 0 || len(h.Params) < 2 {
				return
			}
			pa, pb := h.Params[len(h.Params)-2], h.Params[len(h.Params)-1]
			eachInstr(h, func(hin ssa.Instruction) {
				bo, ok := hin.(*ssa.BinOp)
				if !ok || (bo.Op != token.EQL && bo.Op != token.NEQ) {
					return
				}
				el := func(v ssa.Value, prm *ssa.Parameter) bool {
					u, ok := stripConv(v).(*ssa.UnOp)
					if !ok || u.Op != token.MUL {
						return false
					}
					ia, ok := u.X.(*ssa.IndexAddr)
					return ok && ia.X == ssa.Value(prm)
				}
				if (el(bo.X, pa) && el(bo.Y, pb)) || (el(bo.X, pb) && el(bo.Y, pa)) {
					found = true
				}
			})
		}
	})
	return found
}

// cellLoopHeaders: the headers of the loops of fn that walk the cell array: a range loop (go/ssa's
// rangeindex), or a counted loop whose counter — a phi of the header, or that plus a constant — indexes
// the buffer's cells.  When several nest, the outermost comes last.
func cellLoopHeaders(fn *ssa.Function) []*ssa.BasicBlock {
	var out []*ssa.BasicBlock
	loops := loopsOf(fn)
	var hs []*ssa.BasicBlock
	for h := range loops {
		hs = append(hs, h)
	}
	sort.Slice(hs, func(i, j int) bool { return len(loops[hs[i]]) < len(loops[hs[j]]) })
	for _, h := range hs {
		body := loops[h]
		isRange := false
		for _, in := range h.Instrs {
			if bo, ok := in.(*ssa.BinOp); ok && isRangeIndex(bo) {
				isRange = true
			}
		}
		indexed := false
		for b := range body {
			for _, in := range b.Instrs {
				ia, ok := in.(*ssa.IndexAddr)
				if !ok {
					continue
				}
				if ref, _, isF := loadedField(ia.X); !isF || ref.Name != "cells" {
					continue
				}
				idx := stripConv(ia.Index)
				if add, isAdd := idx.(*ssa.BinOp); isAdd && add.Op == token.ADD {
					idx = add.X
				}
				if phi, isPhi := idx.(*ssa.Phi); isPhi && phi.Block() == h {
					indexed = true
				}
			}
		}
		if isRange || indexed {
			out = append(out, h)
		}
	}
	return out
}

package main

// Rules added after seeding round 11.

import (
	"fmt"
	"go/token"
	"go/types"
	"strings"

	"golang.org/x/tools/go/ssa"
)

// checkWidthTableAfterSetting: the width the cell buffer reports is go-runewidth's under the setting
// tcell chooses at init (East Asian ambiguous width off unless the environment asks for it).  A lookup
// table built from the condition (CreateLUT) freezes the setting in force at that moment: every such call
// in the module lies behind the point where the setting was decided (the test of RUNEWIDTH_EASTASIAN).
func checkWidthTableAfterSetting(c *Ctx, p *Prog, rule string) {
	n, bad := 0, ""
	for _, f := range p.modFns {
		if f.Pkg != p.Tcell {
			continue
		}
		eachInstr(f, func(in ssa.Instruction) {
			cc := callCommon(in)
			if cc == nil || !strings.Contains(calleeName(cc), "go-runewidth") || !strings.HasSuffix(calleeName(cc), "CreateLUT") {
				return
			}
			n++
			decided := false
			eachInstr(f, func(x ssa.Instruction) {
				if c2 := callCommon(x); c2 != nil && calleeName(c2) == "os.Getenv" && len(c2.Args) == 1 {
					if s, ok := constString(c2.Args[0]); ok && s == "RUNEWIDTH_EASTASIAN" && instrDominates(x, in) {
						// … and not inside the branch that leaves the setting alone only
						decided = true
					}
				}
			})
			// the table must come after the store of the setting as well
			for _, g := range p.modFns {
				if g != f {
					continue
				}
				eachInstr(g, func(x ssa.Instruction) {
					if st, ok := x.(*ssa.Store); ok {
						if ref, _, isF := fieldAddrRef(st.Addr); isF && ref.Name == "EastAsianWidth" && reachableAfter(in, st) {
							decided = false
						}
					}
				})
			}
			if !decided {
				bad += fmt.Sprintf("%s builds the width table at %s before the East Asian setting is decided; ", f.Name(), p.pos(in.Pos()))
			}
		})
	}
	c.Check(bad == "", rule, "runewidth:table-built-after-the-setting", "-", fmt.Sprintf("%d call(s) of CreateLUT, each after the RUNEWIDTH_EASTASIAN decision and the store it leads to %s", n, bad))
}

// checkRegistriesFiledUnderAliases: every shipped name and alias resolves, also through the synthesis of
// -truecolor and -256color names: whatever package-level table AddTerminfo files an entry in, it files it
// under the name and under each alias alike (a second table keyed by the primary name only answers "no
// such family" for an alias).
func checkRegistriesFiledUnderAliases(c *Ctx, p *Prog, rule string) {
	add := p.Fn("terminfo:AddTerminfo")
	if add == nil {
		c.Undecided(rule, "AddTerminfo", "-", "not found")
		return
	}
	derives := func(v ssa.Value, field string) bool {
		hit := false
		var walk func(v ssa.Value, d int)
		walk = func(v ssa.Value, d int) {
			if v == nil || d < 0 || hit {
				return
			}
			if ref, _, ok := loadedField(v); ok && ref.Owner == "terminfo.Terminfo" && ref.Name == field {
				hit = true
				return
			}
			if in, ok := v.(ssa.Instruction); ok {
				for _, op := range in.Operands(nil) {
					if *op != nil {
						walk(*op, d-1)
					}
				}
			}
		}
		walk(v, 8)
		return hit
	}
	type use struct{ name, alias bool }
	tabs := map[string]*use{}
	for _, d := range deepInstrs(p, add, 1, nil) {
		upd, ok := d.in.(*ssa.MapUpdate)
		if !ok {
			continue
		}
		u, isU := upd.Map.(*ssa.UnOp)
		if !isU {
			continue
		}
		g, isG := u.X.(*ssa.Global)
		if !isG {
			continue
		}
		if tabs[g.Name()] == nil {
			tabs[g.Name()] = &use{}
		}
		k := d.bindVal(upd.Key)
		if derives(k, "Name") {
			tabs[g.Name()].name = true
		}
		if derives(k, "Aliases") {
			tabs[g.Name()].alias = true
		}
	}
	if len(tabs) == 0 {
		c.Undecided(rule, "AddTerminfo:tables", p.pos(add.Pos()), "no package-level table is written")
		return
	}
	for _, name := range sortedKeys(tabs) {
		u := tabs[name]
		// (a key that comes out of a local collection of the names counts as derived from the aliases: the
		// collection is built from them)
		c.Check(!u.name || u.alias, rule, "AddTerminfo:"+name+":filed-under-name-and-aliases", p.pos(add.Pos()), fmt.Sprintf("keys derived from the entry's name: %v, from its aliases: %v (a table keyed by the name must be keyed by the aliases too)", u.name, u.alias))
	}
}

// checkSimDrawCellWritesOwnCell: the simulation's drawCell updates the physical cell it was asked to draw
// and no other: every element of the front array it addresses is addressed by the one index y*w+x (a
// write to a neighbour — the covered half of a wide rune — wraps into the next row in the last column).
func checkSimDrawCellWritesOwnCell(c *Ctx, p *Prog, rule string) {
	fn := p.Fn("tcell:(*simscreen).drawCell")
	if fn == nil {
		c.Undecided(rule, "simscreen.drawCell", "-", "not found")
		return
	}
	idx := map[string]bool{}
	n := 0
	for _, d := range deepInstrs(p, fn, 1, nil) {
		ia, ok := d.in.(*ssa.IndexAddr)
		if !ok {
			continue
		}
		if ref, _, isF := loadedField(ia.X); !isF || ref.Owner != "tcell.simscreen" || ref.Name != "front" {
			continue
		}
		n++
		idx[valName(d.bindVal(ia.Index))] = true
	}
	c.Check(n > 0 && len(idx) == 1, rule, "simscreen.drawCell:one-cell-addressed", p.pos(fn.Pos()), fmt.Sprintf("%d address(es) into the physical cells, index expression(s): %v", n, sortedKeys(idx)))
}

// checkInjectAlwaysPosts: injected keys and mouse events come out of PollEvent exactly as injected:
// InjectKey and InjectMouse reach the post on every path (no test of the screen's modes in between).
func checkInjectAlwaysPosts(c *Ctx, p *Prog, rule string) {
	n := 0
	for _, name := range []string{"InjectKey", "InjectMouse"} {
		fn := p.Fn("tcell:(*simscreen)." + name)
		if fn == nil {
			continue
		}
		n++
		stop := map[ssa.Instruction]bool{}
		eachInstr(fn, func(in ssa.Instruction) {
			if cc := callCommon(in); cc != nil {
				if h := cc.StaticCallee(); h != nil && h.Pkg == p.Tcell && (strings.HasSuffix(h.Name(), "postEvent") || strings.HasSuffix(h.Name(), "PostEvent") || strings.HasSuffix(h.Name(), "PostEventWait")) {
					stop[in] = true
				}
			}
			if _, ok := in.(*ssa.Send); ok {
				stop[in] = true
			}
			if sel, ok := in.(*ssa.Select); ok {
				for _, st := range sel.States {
					if st.Dir == types.SendOnly {
						stop[in] = true
					}
				}
			}
		})
		bad := ""
		if len(stop) == 0 {
			bad = "no post found; "
		}
		for _, r := range returnsOf(fn) {
			if existsPathFromEntryAvoiding(fn, r, stop) {
				bad += fmt.Sprintf("the return at %s is reached without posting (guards: %v); ", p.pos(r.Pos()), guardsAt(r.Block()))
			}
		}
		c.Check(bad == "", rule, "simscreen."+name+":always-posts", p.pos(fn.Pos()), "every return follows the post of the injected event "+bad)
	}
	if n == 0 {
		c.Undecided(rule, "simscreen:Inject", "-", "InjectKey/InjectMouse not found")
	}
}

// checkSimFiniResetsBounds: further calls on a finished simulation do not panic: where Fini (or anything
// else) drops the physical cell array, the bounds used to index it are reset with it.
func checkSimFiniResetsBounds(c *Ctx, p *Prog, rule string) {
	n := 0
	for _, f := range p.modFns {
		if f.Pkg != p.Tcell {
			continue
		}
		for _, st := range storesTo(f, "tcell.simscreen", "front") {
			if !isNilConst(st.Val) {
				continue
			}
			n++
			zero := func(field string) bool {
				for _, s2 := range storesTo(f, "tcell.simscreen", field) {
					if k, ok := constInt(s2.Val); ok && k == 0 && (instrDominates(s2, st) || instrDominates(st, s2)) {
						return true
					}
				}
				return false
			}
			c.Check(zero("physw") && zero("physh"), rule, "simscreen."+f.Name()+":bounds-reset-with-the-cells", p.pos(st.Pos()), "the stores of nil into front and of 0 into physw and physh go together")
		}
	}
	if n == 0 {
		c.Undecided(rule, "simscreen:front=nil", "-", "no place drops the physical cells")
	}
}

// checkWebResizeUnconditional: the page grid follows SetSize in any order with Suspend and Resume: the
// page's resize is called whatever the running state (Resume does not replay the size).
func checkWebResizeUnconditional(c *Ctx, p *Prog, rule string) {
	fn := p.Fn("tcell:(*wScreen).SetSize")
	if fn == nil {
		c.Undecided(rule, "wScreen.SetSize", "-", "not found")
		return
	}
	n, bad := 0, ""
	replay := false
	if rs := p.Fn("tcell:(*wScreen).Resume"); rs != nil {
		for _, d := range deepInstrs(p, rs, 1, nil) {
			if cc := callCommon(d.in); cc != nil && strings.HasSuffix(calleeName(cc), "js.Value).Call") && len(cc.Args) >= 2 {
				if s, ok := constString(cc.Args[1]); ok && s == "resize" {
					replay = true
				}
			}
		}
	}
	for _, d := range deepInstrs(p, fn, 1, nil) {
		cc := callCommon(d.in)
		if cc == nil || !strings.HasSuffix(calleeName(cc), "js.Value).Call") || len(cc.Args) < 2 {
			continue
		}
		if s, ok := constString(cc.Args[1]); !ok || s != "resize" {
			continue
		}
		n++
		for _, g := range d.rawGuards() {
			for _, f := range screenFieldsInOf(g.Cond, "tcell.wScreen", 4) {
				if f == "running" && !replay {
					bad += "the page is resized only while running, and Resume does not replay the size; "
				}
			}
		}
	}
	c.Check(n > 0 && bad == "", rule, "wScreen.SetSize:page-resized-in-any-state", p.pos(fn.Pos()), fmt.Sprintf("%d call(s) of the page's resize %s", n, bad))
}

// checkMouseDefaultByAbsence: EnableMouse() without arguments means all modes; an explicit empty flag
// set means none.  The branch that stores the all-modes default is decided by whether arguments were
// given (their number, a flag set in the loop over them), not by the or-ed flags being zero.
func checkMouseDefaultByAbsence(c *Ctx, p *Prog, rule, tname string) {
	fn := p.Fn("tcell:(*" + tname + ").EnableMouse")
	if fn == nil {
		c.Undecided(rule, tname+".EnableMouse", "-", "not found")
		return
	}
	n, bad := 0, ""
	eachInstr(fn, func(in ssa.Instruction) {
		phi, ok := in.(*ssa.Phi)
		if !ok || typeName(phi.Type()) != "tcell.MouseFlags" {
			return
		}
		for i, e := range phi.Edges {
			k, isK := constInt(e)
			if !isK || k == 0 || k&(k-1) == 0 || i >= len(phi.Block().Preds) {
				continue // not a combination of several modes
			}
			n++
			pr := phi.Block().Preds[i]
			for _, g := range rawGuardsAt(pr) {
				bo, isBO := g.Cond.(*ssa.BinOp)
				if !isBO || (bo.Op != token.EQL && bo.Op != token.NEQ) {
					continue
				}
				for _, side := range []ssa.Value{bo.X, bo.Y} {
					if typeName(side.Type()) == "tcell.MouseFlags" {
						if _, isC := side.(*ssa.Const); !isC {
							bad += fmt.Sprintf("the default at %s is chosen by comparing the flags given with a constant; ", p.pos(phi.Pos()))
						}
					}
				}
			}
		}
	})
	c.Check(n > 0 && bad == "", rule, tname+".EnableMouse:default-by-absence-of-arguments", p.pos(fn.Pos()), fmt.Sprintf("%d place(s) where the all-modes default is chosen, none by the value of the flags %s", n, bad))
}

// checkTimerArmedAfterScan: the escape timer runs while input is waiting for more: it is armed only after
// the scan of what is buffered has returned (armed before, it can fire while the scan waits for room in
// the event queue, and the expiry branch then competes with the chunk that completes the sequence).
func checkTimerArmedAfterScan(c *Ctx, p *Prog, rule string) {
	ml := p.Fn("tcell:(*tScreen).mainLoop")
	if ml == nil {
		c.Undecided(rule, "mainLoop", "-", "not found")
		return
	}
	var scans, resets []ssa.Instruction
	for _, d := range deepInstrs(p, ml, 1, nil) {
		cc := callCommon(d.in)
		if cc == nil {
			continue
		}
		name := calleeName(cc)
		if strings.HasSuffix(name, "tScreen).scanInput") && d.anchor != nil {
			scans = append(scans, d.anchor)
		}
		if name == "(*time.Timer).Reset" && d.anchor != nil {
			resets = append(resets, d.anchor)
		}
	}
	// (in the branch that has just appended a chunk to the buffer; the expiry branch re-arms a timer that
	// has just fired, whether or not it scanned)
	var writes []ssa.Instruction
	for _, d := range deepInstrs(p, ml, 1, nil) {
		if cc := callCommon(d.in); cc != nil && calleeName(cc) == "(*bytes.Buffer).Write" && d.anchor != nil {
			writes = append(writes, d.anchor)
		}
	}
	bad := ""
	nChunk := 0
	for _, r := range resets {
		for _, w := range writes {
			if !instrDominates(w, r) {
				continue
			}
			nChunk++
			dom := false
			for _, s := range scans {
				if s != r && instrDominates(w, s) && instrDominates(s, r) {
					dom = true
				}
			}
			if !dom {
				bad += "the timer is armed at " + p.pos(r.Pos()) + " before the scan of the chunk has run; "
			}
		}
	}
	c.Check(nChunk > 0 && len(scans) > 0 && bad == "", rule, "mainLoop:timer-armed-after-the-scan", p.pos(ml.Pos()), fmt.Sprintf("%d Reset(s) of the escape timer, each dominated by a call of the scanner %s", len(resets), bad))
}

// checkMotionFoldIgnoresButtonBits: motion with no button held carries no buttons, whatever button number
// the terminal puts into the motion report: the block that folds such a report to "no buttons" is
// decided by the motion bit and the held flag, not by the button bits of the code.
func checkMotionFoldIgnoresButtonBits(c *Ctx, p *Prog, rule string) {
	fn := p.Fn("tcell:(*tScreen).parseSgrMouse")
	if fn == nil {
		c.Undecided(rule, "parseSgrMouse", "-", "not found")
		return
	}
	n, bad := 0, ""
	for _, d := range deepInstrs(p, fn, 2, nil) {
		bo, ok := d.in.(*ssa.BinOp)
		if !ok || bo.Op != token.OR {
			continue
		}
		if k, isK := constInt(bo.Y); !isK || k != 3 {
			continue
		}
		n++
		for _, g := range d.rawGuards() {
			cmp, isCmp := g.Cond.(*ssa.BinOp)
			if !isCmp {
				continue
			}
			for _, side := range []ssa.Value{cmp.X, cmp.Y} {
				and, isAnd := side.(*ssa.BinOp)
				if !isAnd || and.Op != token.AND {
					continue
				}
				if m, isM := constInt(and.Y); isM && m&3 != 0 && m != 32 {
					bad += fmt.Sprintf("the fold at %s depends on the button bits of the code (mask %#x); ", p.pos(bo.Pos()), m)
				}
			}
		}
	}
	c.Check(n > 0 && bad == "", rule, "parseSgrMouse:motion-fold-by-held-flag-only", p.pos(fn.Pos()), fmt.Sprintf("%d fold(s) of a motion report to no buttons %s", n, bad))
}

// checkCornerTrickOnlyInTheCorner: the neighbour is used to paint the bottom-right corner only: the
// insert-character emission of drawCell is reached only where the column is known to be the last one
// and the row the last one (two equalities, through a helper's answer as well).
func checkCornerTrickOnlyInTheCorner(c *Ctx, p *Prog, rule string) {
	dc := p.Fn("tcell:(*tScreen).drawCell")
	if dc == nil || len(dc.Params) < 3 {
		c.Undecided(rule, "drawCell", "-", "not found")
		return
	}
	xn, yn := dc.Params[1].Name(), dc.Params[2].Name()
	n, bad := 0, ""
	var all []deepInstr
	siteOf := map[*ssa.Function]ssa.Instruction{}
	for _, f := range withClosures(dc) {
		if f != dc {
			// a function literal (the deferred second half of the trick) runs under what holds where it is made
			eachInstr(f.Parent(), func(in ssa.Instruction) {
				if mc, ok := in.(*ssa.MakeClosure); ok && mc.Fn == ssa.Value(f) {
					siteOf[f] = in
				}
			})
		}
		all = append(all, deepInstrs(p, f, 1, nil)...)
		// the second half of the trick as a deferred method (`defer t.shiftIntoCorner(x, y)`)
		eachInstr(f, func(in ssa.Instruction) {
			if df, ok := in.(*ssa.Defer); ok {
				if h := df.Call.StaticCallee(); h != nil && h.Pkg == p.Tcell && len(h.Blocks) > 0 && h.Parent() == nil {
					siteOf[h] = in
					all = append(all, deepInstrs(p, h, 1, nil)...)
				}
			}
		})
	}
	for _, d := range all {
		cc := callCommon(d.in)
		if cc == nil || !strings.HasSuffix(calleeName(cc), "tScreen).TPuts") || len(cc.Args) < 2 {
			continue
		}
		if ref, _, ok := loadedField(d.bindVal(cc.Args[1])); !ok || ref.Name != "InsertChar" {
			continue
		}
		n++
		okX, okY := false, false
		as := append(append([]Atom{}, d.atoms()...), guardsAt(d.anchor.Block())...)
		if site := siteOf[d.anchor.Parent()]; site != nil {
			as = append(as, guardsAt(site.Block())...)
		}
		for _, a := range as {
			if a.Op != "==" {
				continue
			}
			for _, pair := range [][2]string{{a.L, a.R}, {a.R, a.L}} {
				if pair[0] == xn && strings.Contains(pair[1], ".w") {
					okX = true
				}
				if pair[0] == yn && strings.Contains(pair[1], ".h") {
					okY = true
				}
			}
		}
		if !okX || !okY {
			bad += fmt.Sprintf("the insert-character emission at %s is not confined to the last column (%v) of the last row (%v): known there %v; ", p.pos(d.in.Pos()), okX, okY, as)
		}
	}
	c.Check(n > 0 && bad == "", rule, "drawCell:corner-trick-only-in-the-corner", p.pos(dc.Pos()), fmt.Sprintf("%d emission(s) of InsertChar, each where x == w-1 and y == h-1 are known %s", n, bad))
}

// checkOrientationChangePosts: re-doing the layout after the orientation changes, in an enclosing box as
// well: SetOrientation posts the content event where it records the change (a direct re-layout of this
// box leaves the parent with the extent measured for the old axis).
func checkOrientationChangePosts(c *Ctx, p *Prog, rule string) {
	if p.Views == nil {
		c.Undecided(rule, "package views", "-", "not loaded")
		return
	}
	// the "needs a layout" flag, by role: the boolean field of the box that layout() clears
	changedField := "changed"
	if l := p.Fn("views:(*BoxLayout).layout"); l != nil {
		eachInstr(l, func(in ssa.Instruction) {
			if st, ok := in.(*ssa.Store); ok {
				if ref, _, isF := fieldAddrRef(st.Addr); isF && ref.Owner == "views.BoxLayout" {
					if v, isC := constBool(st.Val); isC && !v {
						changedField = ref.Name
					}
				}
			}
		})
	}
	n := 0
	for _, name := range []string{"SetOrientation", "AddWidget", "InsertWidget", "RemoveWidget"} {
		fn := p.Fn("views:(*BoxLayout)." + name)
		if fn == nil {
			continue
		}
		var posts []ssa.Instruction
		for _, d := range deepInstrs(p, fn, 1, nil) {
			if cc := callCommon(d.in); cc != nil && strings.HasSuffix(calleeName(cc), "PostEventWidgetContent") && d.anchor != nil {
				posts = append(posts, d.anchor)
			}
		}
		for _, st := range storesTo(fn, "views.BoxLayout", changedField) {
			if v, ok := constBool(st.Val); !ok || !v {
				continue
			}
			n++
			ok := false
			for _, ps := range posts {
				if instrDominates(st, ps) || instrDominates(ps, st) {
					ok = true
				}
			}
			c.Check(ok, rule, "BoxLayout."+name+":change-is-announced", p.pos(st.Pos()), "where the layout is marked changed the content event is posted (an enclosing box lays out again)")
		}
	}
	if n == 0 {
		c.Undecided(rule, "BoxLayout:mutators", "-", "no store marking the layout changed found")
	}
}

// checkAcsMapOwnedByScreen: the ACS glyph strings carry this terminal's enter/exit sequences: the table a
// screen uses is made for it (a fresh map), never one shared through a package-level cache keyed by
// something less than all it depends on.
func checkAcsMapOwnedByScreen(c *Ctx, p *Prog, rule string) {
	n, bad := 0, ""
	for _, f := range p.modFns {
		if f.Pkg != p.Tcell {
			continue
		}
		for _, st := range storesTo(f, "tcell.tScreen", "acs") {
			if isNilConst(st.Val) {
				continue
			}
			n++
			fresh := true
			for _, src := range phiSourcesAll(st.Val) {
				if _, isPhi := src.(*ssa.Phi); isPhi {
					continue
				}
				if _, isMk := src.(*ssa.MakeMap); !isMk {
					fresh = false
				}
			}
			if !fresh {
				bad += fmt.Sprintf("%s stores a table that is not made there (%s) at %s; ", f.Name(), valName(st.Val), p.pos(st.Pos()))
			}
		}
	}
	c.Check(n > 0 && bad == "", rule, "tScreen.acs:made-for-the-screen", "-", fmt.Sprintf("%d store(s) of the table, each of a map made on the spot %s", n, bad))
}

// checkRawModeIsEightBitClean: text in a legacy 8-bit charset (and UTF-8) arrives with its top bits: the
// Unix ttys enter raw mode through term.MakeRaw, or — where the mode is set by hand — the input flags
// they clear include ISTRIP (a line that had istrip set, a 7-bit serial or telnet line, otherwise keeps
// stripping every byte >= 0x80).
func checkRawModeIsEightBitClean(c *Ctx, p *Prog, rule string) {
	istrip := int64(-1)
	if up := p.All["golang.org/x/sys/unix"]; up != nil {
		if o := up.Types.Scope().Lookup("ISTRIP"); o != nil {
			istrip = constObjInt(o)
		}
	}
	n := 0
	for _, t := range []string{"devTty", "stdIoTty"} {
		st := p.Fn("tcell:(*" + t + ").Start")
		if st == nil {
			continue
		}
		n++
		makeRaw, byHand, clears := false, false, false
		for _, d := range deepInstrs(p, st, 2, nil) {
			if cc := callCommon(d.in); cc != nil && calleeName(cc) == "golang.org/x/term.MakeRaw" {
				makeRaw = true
			}
			if s, ok := d.in.(*ssa.Store); ok {
				if ref, _, isF := fieldAddrRef(s.Addr); isF && ref.Name == "Iflag" {
					byHand = true
					if bo, isBO := s.Val.(*ssa.BinOp); isBO && bo.Op == token.AND_NOT {
						if k, isK := constInt(bo.Y); isK && istrip > 0 && k&istrip != 0 {
							clears = true
						}
					}
				}
			}
		}
		switch {
		case makeRaw:
			c.OK(rule, t+".Start:raw-mode-8-bit-clean", p.pos(st.Pos()), "raw mode through term.MakeRaw")
		case byHand:
			c.Check(clears, rule, t+".Start:raw-mode-8-bit-clean", p.pos(st.Pos()), fmt.Sprintf("raw mode set by hand: the input flags cleared include ISTRIP (%#x)", istrip))
		default:
			c.Undecided(rule, t+".Start:raw-mode-8-bit-clean", p.pos(st.Pos()), "neither term.MakeRaw nor a store of the input flags is reached")
		}
	}
	if n == 0 {
		c.Undecided(rule, "tty:Start", "-", "no Unix Tty found")
	}
}

// checkAddressesNotCached: a cell is written where it belongs because the cursor address sent before it
// is expanded from its own coordinates each time: no result of TGoto is stored into a map or an array of
// the screen (a cache of address strings needs a key that never collides and an invalidation on every
// change of geometry; both have been got wrong).
func checkAddressesNotCached(c *Ctx, p *Prog, rule string) {
	isGoto := func(v ssa.Value) bool {
		for _, src := range phiSourcesAll(derefCell(v)) {
			if call, ok := src.(*ssa.Call); ok && strings.HasSuffix(calleeName(&call.Call), "Terminfo).TGoto") {
				return true
			}
		}
		return false
	}
	n, bad := 0, ""
	for _, f := range p.modFns {
		if f.Pkg != p.Tcell || recvTypeName(topFunc(f)) != "tcell.tScreen" {
			continue
		}
		eachInstr(f, func(in ssa.Instruction) {
			if cc := callCommon(in); cc != nil && strings.HasSuffix(calleeName(cc), "Terminfo).TGoto") {
				n++
			}
			switch x := in.(type) {
			case *ssa.MapUpdate:
				if isGoto(x.Value) {
					bad += fmt.Sprintf("%s keeps an address string in a map at %s; ", f.Name(), p.pos(in.Pos()))
				}
			case *ssa.Store:
				if _, isIA := x.Addr.(*ssa.IndexAddr); isIA && isGoto(x.Val) {
					bad += fmt.Sprintf("%s keeps an address string in a table at %s; ", f.Name(), p.pos(in.Pos()))
				}
				if ref, _, ok := fieldAddrRef(x.Addr); ok && ref.Owner == "tcell.tScreen" && isGoto(x.Val) {
					bad += fmt.Sprintf("%s keeps an address string in t.%s at %s; ", f.Name(), ref.Name, p.pos(in.Pos()))
				}
			}
		})
	}
	c.Check(n > 0 && bad == "", rule, "tScreen:cursor-addresses-expanded-each-time", "-", fmt.Sprintf("%d call(s) of TGoto, none of whose results is kept in a map, table or field of the screen %s", n, bad))
}

package main

// Rules added after seeding round 12.

import (
	"fmt"
	"go/token"
	"go/types"
	"strings"

	"golang.org/x/tools/go/ssa"
)

// checkInjectedControlBytesAreKeys: a control byte among injected key bytes comes out as its control key,
// as the real decoder delivers it: in InjectKeyBytes a rune event made straight from an input byte is
// made only where the byte is known to be printable (>= ' ').
func checkInjectedControlBytesAreKeys(c *Ctx, p *Prog, rule string) {
	fn := p.Fn("tcell:(*simscreen).InjectKeyBytes")
	if fn == nil || len(fn.Params) < 2 {
		c.Undecided(rule, "simscreen.InjectKeyBytes", "-", "not found")
		return
	}
	keyRune := pkgConst(p, "KeyRune")
	n, bad := 0, ""
	for _, d := range deepInstrs(p, fn, 1, nil) {
		cc := callCommon(d.in)
		if cc == nil || !strings.HasSuffix(calleeName(cc), ".NewEventKey") || len(cc.Args) < 3 {
			continue
		}
		if k, ok := constInt(cc.Args[0]); !ok || k != keyRune {
			continue
		}
		// the rune is an input byte itself (not the decoder's output)
		raw := false
		if u, ok := stripConv(d.bindVal(cc.Args[1])).(*ssa.UnOp); ok && u.Op == token.MUL {
			if _, isIA := u.X.(*ssa.IndexAddr); isIA {
				raw = true
			}
		}
		if !raw {
			continue
		}
		n++
		printable := false
		for _, a := range d.guards() {
			if (a.Op == ">=" && a.R == "32") || (a.Op == ">" && a.R == "31") {
				printable = true
			}
		}
		if !printable {
			bad += fmt.Sprintf("the rune event at %s is made from a byte not known to be printable (known: %v); ", p.pos(d.in.Pos()), d.guards())
		}
	}
	c.Check(n > 0 && bad == "", rule, "simscreen.InjectKeyBytes:raw-byte-rune-only-if-printable", p.pos(fn.Pos()), fmt.Sprintf("%d rune event(s) made straight from an input byte, each where the byte is >= ' ' %s", n, bad))
}

// checkShowCursorAlwaysRecomputes: the cursor query reflects ShowCursor: every call recomputes the
// visibility (a shortcut for "same position as stored" keeps a visibility that SetSize has made stale).
func checkShowCursorAlwaysRecomputes(c *Ctx, p *Prog, rule string) {
	fn := p.Fn("tcell:(*simscreen).ShowCursor")
	if fn == nil {
		c.Undecided(rule, "simscreen.ShowCursor", "-", "not found")
		return
	}
	// the visibility is the field whose value GetCursor answers third (whatever it is called and
	// whichever struct holds it); without that anchor, a simscreen field named for it
	visRefs := map[string]bool{}
	if gc := p.Fn("tcell:(*simscreen).GetCursor"); gc != nil {
		for _, r := range returnsOf(gc) {
			if ret := r; len(ret.Results) == 3 {
				if ld, isLd := ret.Results[2].(*ssa.UnOp); isLd && ld.Op == token.MUL {
					if ref, _, isF := fieldAddrRef(ld.X); isF {
						visRefs[ref.Owner+"."+ref.Name] = true
					}
				}
			}
		}
	}
	isVis := func(addr ssa.Value) bool {
		ref, _, isF := fieldAddrRef(addr)
		if !isF {
			return false
		}
		if len(visRefs) > 0 {
			return visRefs[ref.Owner+"."+ref.Name]
		}
		return ref.Owner == "tcell.simscreen" && strings.Contains(ref.Name, "vis")
	}
	stop := map[ssa.Instruction]bool{}
	eachInstr(fn, func(in ssa.Instruction) {
		if st, ok := in.(*ssa.Store); ok {
			if isVis(st.Addr) {
				stop[in] = true
			}
		}
		if cc := callCommon(in); cc != nil {
			if h := cc.StaticCallee(); h != nil && h.Pkg == p.Tcell && h != fn {
				hit := false
				eachInstr(h, func(x ssa.Instruction) {
					if st, ok := x.(*ssa.Store); ok && isVis(st.Addr) {
						hit = true
					}
				})
				if hit {
					stop[in] = true
				}
			}
		}
	})
	bad := ""
	if len(stop) == 0 {
		bad = "the visibility is not computed; "
	}
	for _, r := range returnsOf(fn) {
		if existsPathFromEntryAvoiding(fn, r, stop) {
			bad += fmt.Sprintf("the return at %s is reached without recomputing the visibility (guards: %v); ", p.pos(r.Pos()), guardsAt(r.Block()))
		}
	}
	c.Check(bad == "", rule, "simscreen.ShowCursor:visibility-recomputed-on-every-call", p.pos(fn.Pos()), "every return follows the computation of the cursor's visibility "+bad)
}

// checkColourCacheEntries: nearest palette entry: what the screen's colour cache maps a colour to is the
// colour itself (the identity entries of the palette) or what FindColor answered for it; no other
// mapping is pre-seeded (bright i+8 to basic i is right for seven of the eight, not for grey).
func checkColourCacheEntries(c *Ctx, p *Prog, rule string) {
	n, bad := 0, ""
	for _, f := range p.modFns {
		if f.Pkg != p.Tcell || recvTypeName(topFunc(f)) != "tcell.tScreen" {
			continue
		}
		eachInstr(f, func(in ssa.Instruction) {
			upd, ok := in.(*ssa.MapUpdate)
			if !ok {
				return
			}
			ref, _, isF := loadedField(upd.Map)
			if !isF || ref.Owner != "tcell.tScreen" || ref.Name != "colors" {
				return
			}
			n++
			if upd.Key == upd.Value || valName(upd.Key) == valName(upd.Value) {
				return
			}
			fromFind := false
			for _, src := range phiSourcesAll(derefCell(upd.Value)) {
				if call, isCall := src.(*ssa.Call); isCall && strings.HasSuffix(calleeName(&call.Call), ".FindColor") {
					fromFind = true
				}
			}
			if !fromFind {
				bad += fmt.Sprintf("%s maps %s to %s at %s; ", f.Name(), valName(upd.Key), valName(upd.Value), p.pos(in.Pos()))
			}
		})
	}
	c.Check(n > 0 && bad == "", rule, "tScreen.colors:identity-or-FindColor", "-", fmt.Sprintf("%d store(s) into the colour cache, each of the colour itself or of FindColor's answer %s", n, bad))
}

// checkSimInitMakesQueuesFirst: PollEvent answers nil after Fini whatever Init did: every return of the
// simulation's Init follows the creation of its event and quit channels.
func checkSimInitMakesQueuesFirst(c *Ctx, p *Prog, rule string) {
	fn := p.Fn("tcell:(*simscreen).Init")
	if fn == nil {
		c.Undecided(rule, "simscreen.Init", "-", "not found")
		return
	}
	n := 0
	for _, field := range []string{"quit", "evch"} {
		stop := map[ssa.Instruction]bool{}
		for _, st := range storesTo(fn, "tcell.simscreen", field) {
			if _, ok := st.Val.(*ssa.MakeChan); ok {
				stop[st] = true
			}
		}
		if len(stop) == 0 {
			// made by the constructor instead: nothing to order
			made := false
			for _, g := range p.modFns {
				if g.Pkg != p.Tcell || g == fn {
					continue
				}
				for _, st := range storesTo(g, "tcell.simscreen", field) {
					if _, ok := st.Val.(*ssa.MakeChan); ok {
						made = true
					}
				}
			}
			c.Check(made, rule, "simscreen.Init:"+field+"-made-before-any-return", p.pos(fn.Pos()), "the channel is made outside Init (constructor)")
			n++
			continue
		}
		n++
		bad := ""
		for _, r := range returnsOf(fn) {
			if existsPathFromEntryAvoiding(fn, r, stop) {
				bad += fmt.Sprintf("the return at %s comes before the channel is made; ", p.pos(r.Pos()))
			}
		}
		c.Check(bad == "", rule, "simscreen.Init:"+field+"-made-before-any-return", p.pos(fn.Pos()), "every return of Init follows the creation of the channel "+bad)
	}
	_ = n
}

// checkWatchersDeliveredFresh: a widget's content event reaches the handlers watching it now: PostEvent
// of the watcher list keeps nothing from one call to the next (no store into the WidgetWatchers).
func checkWatchersDeliveredFresh(c *Ctx, p *Prog, rule string) {
	if p.Views == nil {
		c.Undecided(rule, "package views", "-", "not loaded")
		return
	}
	fn := p.Fn("views:(*WidgetWatchers).PostEvent")
	if fn == nil {
		c.Undecided(rule, "WidgetWatchers.PostEvent", "-", "not found")
		return
	}
	bad := ""
	for _, d := range deepInstrs(p, fn, 1, nil) {
		if st, ok := d.in.(*ssa.Store); ok {
			if ref, _, isF := fieldAddrRef(st.Addr); isF && ref.Owner == "views.WidgetWatchers" {
				bad += fmt.Sprintf("stores into %s at %s; ", ref.Name, p.pos(d.in.Pos()))
			}
		}
	}
	c.Check(bad == "", rule, "WidgetWatchers.PostEvent:no-delivery-state-kept", p.pos(fn.Pos()), "PostEvent stores nothing into the watcher list: the handlers called are those watching at the time of the call "+bad)
}

// checkLayoutExtentsNeverNegative: the surplus stays unassigned where no child expands: the extents a
// BoxLayout hands to a child's ViewPort.Resize are computed from the child's size and its share, never the
// negative constant that means "the rest of the parent".
func checkLayoutExtentsNeverNegative(c *Ctx, p *Prog, rule string) {
	if p.Views == nil {
		c.Undecided(rule, "package views", "-", "not loaded")
		return
	}
	n, bad := 0, ""
	for _, f := range p.modFns {
		if f.Pkg != p.Views || recvTypeName(topFunc(f)) != "views.BoxLayout" {
			continue
		}
		eachInstr(f, func(in ssa.Instruction) {
			cc := callCommon(in)
			if cc == nil || !strings.HasSuffix(calleeName(cc), "ViewPort).Resize") || len(cc.Args) < 5 {
				return
			}
			n++
			for _, a := range cc.Args[3:5] {
				for _, src := range phiSourcesAll(derefCell(a)) {
					if k, ok := constInt(src); ok && k < 0 {
						bad += fmt.Sprintf("%s passes the constant %d as an extent at %s; ", f.Name(), k, p.pos(in.Pos()))
					}
				}
			}
		})
	}
	c.Check(n > 0 && bad == "", rule, "BoxLayout:child-extents-computed", "-", fmt.Sprintf("%d Resize call(s) on the children's view ports, none with a negative constant extent %s", n, bad))
}

// checkDrainKeepsTypeAhead: input is held back, never dropped: the termios change Drain makes waits for
// output (TCSETSW / TIOCSETAW) and does not flush the input queue (TCSETSF / TIOCSETAF throws away what
// the user typed and the reader has not fetched yet).
func checkDrainKeepsTypeAhead(c *Ctx, p *Prog, rule string) {
	up := p.All["golang.org/x/sys/unix"]
	want := map[int64]string{}
	flush := map[int64]string{}
	if up != nil {
		for _, n := range []string{"TCSETSW", "TIOCSETAW"} {
			if o := up.Types.Scope().Lookup(n); o != nil {
				want[constObjInt(o)] = n
			}
		}
		for _, n := range []string{"TCSETSF", "TIOCSETAF"} {
			if o := up.Types.Scope().Lookup(n); o != nil {
				flush[constObjInt(o)] = n
			}
		}
	}
	n, bad := 0, ""
	for _, t := range []string{"devTty", "stdIoTty"} {
		dr := p.Fn("tcell:(*" + t + ").Drain")
		if dr == nil {
			continue
		}
		for _, d := range deepInstrs(p, dr, 2, nil) {
			cc := callCommon(d.in)
			if cc == nil || !strings.HasSuffix(calleeName(cc), "unix.IoctlSetTermios") || len(cc.Args) < 2 {
				continue
			}
			n++
			k, ok := constInt(d.bindVal(cc.Args[1]))
			if !ok {
				bad += "the request is not a constant at " + p.pos(d.in.Pos()) + "; "
				continue
			}
			if name, isFlush := flush[uint64ToInt64(k)]; isFlush {
				bad += fmt.Sprintf("%s.Drain sets the mode with %s, which discards unread input (%s); ", t, name, p.pos(d.in.Pos()))
			} else if _, isWant := want[uint64ToInt64(k)]; !isWant && len(want) > 0 {
				// TCSETS (immediate) loses nothing either
				_ = isWant
			}
		}
	}
	c.Check(n > 0 && bad == "", rule, "tty.Drain:type-ahead-kept", "-", fmt.Sprintf("%d termios change(s) reached from Drain, none with a flushing request %s", n, bad))
}

func uint64ToInt64(k int64) int64 { return k }

// checkColumnAdvancedByCellWidth: the cached cursor column follows what the terminal does: after a cell
// is written it advances by the cell's width (GetContent's), not by a measure of the bytes written (the
// alternate-charset switches around a glyph are not columns).
func checkColumnAdvancedByCellWidth(c *Ctx, p *Prog, rule string) {
	dc := p.Fn("tcell:(*tScreen).drawCell")
	if dc == nil {
		c.Undecided(rule, "drawCell", "-", "not found")
		return
	}
	n, bad := 0, ""
	for _, d := range deepInstrs(p, dc, 1, nil) {
		st, ok := d.in.(*ssa.Store)
		if !ok {
			continue
		}
		ref, _, isF := fieldAddrRef(st.Addr)
		if !isF || ref.Owner != "tcell.tScreen" || ref.Name != "cx" {
			continue
		}
		bo, isBO := st.Val.(*ssa.BinOp)
		if !isBO || bo.Op != token.ADD {
			continue
		}
		if r2, _, ok2 := loadedField(bo.X); !ok2 || r2.Name != "cx" {
			continue
		}
		n++
		for _, src := range phiSourcesAll(derefCell(d.bindVal(bo.Y))) {
			if call, isCall := src.(*ssa.Call); isCall {
				if !strings.HasSuffix(calleeName(&call.Call), "GetContent") {
					bad += fmt.Sprintf("the column advances by %s at %s; ", valName(src), p.pos(d.in.Pos()))
				}
			}
		}
	}
	c.Check(n > 0 && bad == "", rule, "drawCell:column-advances-by-the-cell-width", p.pos(dc.Pos()), fmt.Sprintf("%d advance(s) of the cached column, each by the width GetContent reported (or a constant) %s", n, bad))
}

// checkColumnLoopStepsByDrawCell: the column a wide rune covers is stepped over because drawCell says how
// wide the cell is: every way round the column loop of draw passes the call of drawCell (a `continue`
// for locked cells in front of it visits, and paints, the covered column).
func checkColumnLoopStepsByDrawCell(c *Ctx, p *Prog, rule string) {
	draw := p.Fn("tcell:(*tScreen).draw")
	dcf := p.Fn("tcell:(*tScreen).drawCell")
	if draw == nil || dcf == nil {
		c.Undecided(rule, "draw", "-", "draw or drawCell not found")
		return
	}
	n, bad := 0, ""
	for _, f := range p.modFns {
		if f.Pkg != p.Tcell || !(f == draw || calledOnlyFrom(p, f, map[string]bool{"draw": true}, 1)) {
			continue
		}
		var calls []ssa.Instruction
		eachInstr(f, func(in ssa.Instruction) {
			if cc := callCommon(in); cc != nil && cc.StaticCallee() == dcf {
				if _, isDefer := in.(*ssa.Defer); !isDefer {
					calls = append(calls, in)
				}
			}
		})
		if len(calls) == 0 {
			continue
		}
		loops := loopsOf(f)
		for _, call := range calls {
			// the innermost loop around the call
			var h *ssa.BasicBlock
			for hh, body := range loops {
				if body[call.Block()] && (h == nil || len(body) < len(loops[h])) {
					h = hh
				}
			}
			if h == nil {
				continue
			}
			n++
			for b := range loops[h] {
				for _, s := range b.Succs {
					if s == h && b != h && !(call.Block() == b || call.Block().Dominates(b)) {
						bad += fmt.Sprintf("the column loop of %s goes round from %s without calling drawCell; ", f.Name(), p.pos(firstPos(b)))
					}
				}
			}
		}
	}
	c.Check(n > 0 && bad == "", rule, "draw:column-loop-steps-by-drawCell", p.pos(draw.Pos()), fmt.Sprintf("%d column loop(s), every way round past the call of drawCell %s", n, bad))
}

// checkMouseFlagsStoredAsApplied: after Resume exactly the modes the application had: what EnableMouse
// records for Resume is what it applies now (the flags after the no-argument default was substituted).
func checkMouseFlagsStoredAsApplied(c *Ctx, p *Prog, rule, tname string) {
	fn := p.Fn("tcell:(*" + tname + ").EnableMouse")
	if fn == nil {
		c.Undecided(rule, tname+".EnableMouse", "-", "not found")
		return
	}
	var stored, applied []ssa.Value
	for _, d := range deepInstrs(p, fn, 1, nil) {
		if st, ok := d.in.(*ssa.Store); ok {
			if ref, _, isF := fieldAddrRef(st.Addr); isF && ref.Owner == "tcell."+tname && typeName(st.Val.Type()) == "tcell.MouseFlags" {
				stored = append(stored, derefCell(d.bindVal(st.Val)))
			}
		}
		if cc := callCommon(d.in); cc != nil {
			if h := cc.StaticCallee(); h != nil && h.Pkg == p.Tcell && strings.HasSuffix(h.Name(), "enableMouse") && len(cc.Args) >= 2 {
				applied = append(applied, derefCell(d.bindVal(cc.Args[1])))
			}
		}
	}
	ok := len(stored) > 0 && len(applied) > 0
	for _, s := range stored {
		for _, a := range applied {
			if s != a {
				ok = false
			}
		}
	}
	c.Check(ok, rule, tname+".EnableMouse:recorded-flags-are-the-applied-ones", p.pos(fn.Pos()), fmt.Sprintf("%d store(s) of the flags and %d application(s), all of the same value", len(stored), len(applied)))
}

var _ = types.Typ

package main

import (
	"fmt"
	"go/token"
	"go/types"
	"os"
	"sort"
	"strings"

	"golang.org/x/tools/go/ssa"
)

func init() {
	register("C15", checkC15, "For every built-in terminal (constant extraction, exhaustive over entries) the cursor-addressing program is evaluated by the checker's own reference terminfo(5) interpreter over the (col,row) grid and must produce exactly the string of one of the known addressing conventions (ANSI 1-based decimal, offset-32 bytes after ESC Y / ESC =, HP ESC &a row y col C); the colour programs are evaluated for every palette index and must denote that palette entry as one SGR; TGoto's argument order, TColor's bright-folding and range tests, and TPuts' slice bounds / loop progress are checked on the SSA form. The reference interpreter runs on string constants only. Not decided: the padding grammar and sleep behaviour of TPuts (which $<…> forms are stripped) beyond bounds safety and termination.")
}

func checkC15(c *Ctx) {
	c.Rule("C15-R1", "TGoto(col,row) passes row as %p1 and col as %p2")
	c.Rule("C15-R2", "each entry's cursor addressing evaluates, for every position of the grid, to the string its addressing convention defines")
	c.Rule("C15-R3", "each entry's colour programs select exactly palette entry n for every n below its colour count; TColor folds 8..15 onto 0..7 on 8-colour terminals and elides out-of-range components")
	c.Rule("C15-R4", "TPuts: slice bounds come from non-negative strings.Index results under their guards; every loop cycle shortens the string")
	c.Expect("C15-R1", 1)
	c.Expect("C15-R2", 49)
	c.Expect("C15-R3", 60)
	c.Rule("C15-R5", "TPuts segmentation: the text before a padding marker is written as is, exactly the marker / terminator bytes are skipped, an unterminated specification is written back with the same marker, a string without padding is written whole, and the sleep is taken only under a non-empty pad character")
	c.Rule("C15-R6", "the interpreter's %c writes exactly one byte (offset-32 cursor addressing encodes a coordinate as one byte, also for values of 128 and above)")
	c.Expect("C15-R4", 4)
	c.Expect("C15-R5", 6)
	c.Expect("C15-R6", 1)
	c.Rule("C15-R7", "only the capability is subject to padding: text of the application spliced into it (title, URL) is not searched for $<...> (a constant, base64, or written by a wrapper that strips the capability first)")
	c.Expect("C15-R7", 2)
	c.Rule("C15-R10", "%d writes the decimal form of the number it pops (every cursor position and palette index goes out through it): strconv's form handed to the output, or a helper of the interpreter's own decided by constant evaluation for every number from -1000 to 70000")
	c.Expect("C15-R10", 1)
	c.Rule("C15-R11", "TGoto and TColor are right whoever else is expanding a string: the state of one expansion (buffers, stack, dynamic variables) is allocated by the call, nothing pooled or package-level but the static variables (= C07-R10)")
	c.Expect("C15-R11", 3)
	c.Rule("C15-R12", "every well-formed padding specification is removed, pad character or not (that decides the sleep only): each way round TPuts' scanning loop passes the terminator skip or the write that keeps a rejected marker")
	c.Expect("C15-R12", 1)
	c.Rule("C15-R8", "the interpreter's binary operators are the ones the colour and addressing programs rely on (%< %> %= %- %+ ... : operand order, operator agreement); TColor and TGoto answer through them")
	c.Expect("C15-R8", 10)
	if err := tpSelfTest(); err != nil {
		c.Undecided("C15-R2", "self-test", "-", err.Error())
		return
	}
	p := c.P("linux")
	if p == nil || p.Terminfo == nil {
		c.Undecided("C15-R1", "package terminfo", "-", "not loaded")
		return
	}
	c.Rule("C15-R9", "LookupTerminfo leaves the registry as it is: neither it nor what it calls reaches AddTerminfo or writes the map (an entry fabricated for NAME-256color and registered on the fly replaces the built-in base entry)")
	c.Expect("C15-R9", 1)
	checkLookupDoesNotRegister(c, p, "C15-R9")
	checkDecimalOutput(c, p, "C15-R10")
	checkWellFormedPaddingRemoved(c, p, "C15-R12")
	c.Rule("C15-R13", "TColor folds and elides by the colour count the entry's strings were written for: the count is raised to 256 only in the block that also gives the entry the 256-colour strings, decided by the name alone (raised for direct colour, 8-colour strings get raw numbers up to 255; = C14-R13)")
	c.Expect("C15-R13", 1)
	checkSynth256Unconditional(c, p, "C15-R13")
	if tp := p.Fn("terminfo:(*Terminfo).TParm"); tp != nil {
		c.asRule("C07-R10", "C15-R11", func() { c07CallLocal(c, p, tp) })
	} else {
		c.Undecided("C15-R11", "TParm", "-", "not found")
	}
	db := buildDB(c, p)
	c15Goto(c, p)
	c15Addressing(c, p, db)
	c15Colours(c, p, db)
	c15TColor(c, p)
	c15TPuts(c, p)
	c15TPutsSegments(c, p)
	if p.Tcell != nil {
		checkTextNotPadded(c, p, "C15-R7")
	}
	if tp, dispatch := tparmDispatch(p); tp != nil && dispatch != nil {
		c.asRule("C07-R2", "C15-R8", func() { c07BinOps(c, p, tp, dispatch) })
	} else {
		c.Undecided("C15-R8", "TParm:dispatch", "-", "operator switch not found")
	}
	if tp := p.Fn("terminfo:(*Terminfo).TParm"); tp != nil {
		charOutputRule(c, p, tp, nil, "C15-R6")
	} else {
		c.Undecided("C15-R6", "TParm", "-", "not found")
	}
}

func c15Goto(c *Ctx, p *Prog) {
	fn := p.Fn("terminfo:(*Terminfo).TGoto")
	if fn == nil {
		c.Undecided("C15-R1", "TGoto", "-", "not found")
		return
	}
	found := false
	// TGoto is a function of the addressing string and the position only: what it returns is
	// the result of evaluating the string now (no remembered results, no package-level state)
	{
		impure := ""
		eachInstr(fn, func(in ssa.Instruction) {
			for _, op := range in.Operands(nil) {
				if g, ok := (*op).(*ssa.Global); ok {
					impure += "uses package-level " + g.Name() + "; "
				}
			}
		})
		for _, r := range returnsOf(fn) {
			if len(r.Results) != 1 {
				continue
			}
			call, ok := resultOf(r, 0).(*ssa.Call)
			if !ok || !strings.HasSuffix(calleeName(&call.Call), "Terminfo).TParm") {
				impure += "returns " + valName(resultOf(r, 0)) + " at " + p.pos(r.Pos()) + "; "
			}
		}
		c.Check(impure == "", "C15-R1", "TGoto:pure", p.pos(fn.Pos()), "every return is the result of TParm evaluated in this call "+impure)
	}
	eachInstr(fn, func(in ssa.Instruction) {
		cc := callCommon(in)
		if cc == nil || !strings.HasSuffix(calleeName(cc), "Terminfo).TParm") || len(cc.Args) != 3 {
			return
		}
		found = true
		n, vals, ok := varargCount(cc.Args[2])
		if !ok || n != 2 {
			c.Fail("C15-R1", "TGoto:args", p.pos(in.Pos()), "TParm is not called with exactly two parameters")
			return
		}
		name := func(v ssa.Value) string {
			if mi, ok := v.(*ssa.MakeInterface); ok {
				v = mi.X
			}
			if prm, ok := v.(*ssa.Parameter); ok {
				for i, q := range fn.Params {
					if q == prm {
						return fmt.Sprintf("param#%d", i)
					}
				}
			}
			return valName(v)
		}
		ref, _, isF := loadedField(cc.Args[1])
		// signature TGoto(col, row): Params[0]=receiver, [1]=col, [2]=row
		ok2 := isF && ref.Name == "SetCursor" && name(vals[0]) == "param#2" && name(vals[1]) == "param#1"
		c.Check(ok2, "C15-R1", "TGoto:row-then-col", p.pos(in.Pos()), fmt.Sprintf("TParm(%s, %s, %s): %%p1 must be the row (2nd argument of TGoto), %%p2 the column", valName(cc.Args[1]), name(vals[0]), name(vals[1])))
	})
	if !found {
		c.Undecided("C15-R1", "TGoto:TParm", p.pos(fn.Pos()), "no TParm call")
	}
}

// conventions: given (row, col) produce the expected string, or "" when the convention cannot express it.
type addrConv struct {
	name string
	f    func(row, col int) (string, bool)
}

func addressingConventions(sample string) []addrConv {
	var out []addrConv
	// ANSI: CSI row+1 ; col+1 H|f
	for _, intro := range []string{"\x1b[", "\x9b"} {
		for _, fin := range []string{"H", "f"} {
			intro, fin := intro, fin
			out = append(out, addrConv{"ansi(" + fmt.Sprintf("%q", intro+"…"+fin) + ")", func(r, cl int) (string, bool) {
				return fmt.Sprintf("%s%d;%d%s", intro, r+1, cl+1, fin), true
			}})
		}
	}
	for _, lead := range []string{"\x1bY", "\x1b="} {
		lead := lead
		out = append(out, addrConv{"offset32(" + fmt.Sprintf("%q", lead) + ")", func(r, cl int) (string, bool) {
			if r+32 > 255 || cl+32 > 255 {
				return "", false
			}
			return lead + string([]byte{byte(r + 32), byte(cl + 32)}), true
		}})
	}
	out = append(out, addrConv{"hp(ESC&a r y c C)", func(r, cl int) (string, bool) {
		return fmt.Sprintf("\x1b&a%dy%dC", r, cl), true
	}})
	return out
}

func c15Addressing(c *Ctx, p *Prog, db *dbModel) {
	max := 300
	fams := map[string]int{}
	evals := 0
	for _, e := range db.entries {
		cup := e.Str["SetCursor"]
		if cup == "" {
			c.Fail("C15-R2", e.Name+":cup", p.pos(e.Pos), "no cursor addressing")
			continue
		}
		prg, err := parseTparm(stripPadding(cup))
		if err != nil {
			c.Fail("C15-R2", e.Name+":cup", p.pos(e.Pos), err.Error())
			continue
		}
		convs := addressingConventions(cup)
		alive := make([]bool, len(convs))
		for i := range alive {
			alive[i] = true
		}
		var bad string
		step := func(r, cl int) {
			got, _ := evalTparm(prg, r, cl)
			evals++
			any := false
			for i, cv := range convs {
				if !alive[i] {
					continue
				}
				want, expressible := cv.f(r, cl)
				if !expressible {
					any = true
					continue
				}
				if want == got {
					any = true
				} else {
					alive[i] = false
				}
			}
			if !any && bad == "" {
				bad = fmt.Sprintf("TGoto(col=%d,row=%d) yields %q, which no known addressing convention defines for that position", cl, r, got)
			}
		}
		if c.Tier == "thorough" {
			for r := 0; r <= max && bad == ""; r++ {
				for cl := 0; cl <= max && bad == ""; cl++ {
					step(r, cl)
				}
			}
		} else {
			pts := []int{0, 1, 2, 8, 9, 10, 11, 22, 23, 24, 78, 79, 80, 94, 95, 96, 99, 100, 101, 131, 132, 199, 200, 222, 223, 224, 255, 256, 299, 300}
			for _, r := range pts {
				for cl := 0; cl <= max && bad == ""; cl++ {
					step(r, cl)
				}
			}
			for r := 0; r <= max && bad == ""; r++ {
				for _, cl := range pts {
					step(r, cl)
				}
			}
		}
		fam := ""
		for i, cv := range convs {
			if alive[i] {
				fam = cv.name
				break
			}
		}
		if bad == "" && fam == "" {
			bad = "no single addressing convention explains all positions"
		}
		fams[fam]++
		c.Check(bad == "", "C15-R2", e.Name+":cup-convention", p.pos(e.Pos), fmt.Sprintf("%q ⇒ %s %s", cup, fam, bad))
	}
	c.extra["addressing_families"] = fams
	c.extra["addressing_evaluations"] = evals
}

func c15Colours(c *Ctx, p *Prog, db *dbModel) { coloursRule(c, p, db, "C15-R3") }

func coloursRule(c *Ctx, p *Prog, db *dbModel, rule string) {
	n := 0
	for _, e := range db.entries {
		colors := int(e.Int["Colors"])
		if colors == 0 {
			c.Trivial(rule, e.Name+":mono", p.pos(e.Pos), "monochrome entry")
			continue
		}
		for _, f := range []string{"SetFg", "SetBg", "SetFgBg", "ResetFgBg", "SetFgRGB", "SetBgRGB", "SetFgBgRGB"} {
			s := e.Str[f]
			if s == "" {
				continue
			}
			n++
			msg := checkColourProgram(f, s, colors)
			c.Check(msg == "", rule, e.Name+":"+f, p.pos(e.Pos), fmt.Sprintf("%q over %d colours %s", s, colors, msg))
		}
	}
	if rule == "C15-R3" {
		c.extra["colour_programs"] = n
	}
}

// atomsOf collects the canonical comparison atoms of all branch conditions in fn.
func atomsOf(fn *ssa.Function) map[string]bool {
	out := map[string]bool{}
	for _, b := range fn.Blocks {
		if len(b.Instrs) == 0 {
			continue
		}
		if iff, ok := b.Instrs[len(b.Instrs)-1].(*ssa.If); ok {
			if at, ok := condAtom(iff.Cond, true); ok {
				out[at.canon().String()] = true
			}
		}
	}
	return out
}

func c15TColor(c *Ctx, p *Prog) {
	fn := p.Fn("terminfo:(*Terminfo).TColor")
	if fn == nil || len(fn.Params) != 3 {
		c.Undecided("C15-R3", "TColor", "-", "not found")
		return
	}
	// Decided on values, not on names or layout: for the index X handed to TParm(SetFg, X)
	//   - X is the foreground parameter, or that parameter minus 8 (never the background one);
	//   - the minus-8 alternative arrives only where Colors == 8, 8 <= fi and fi < 16 are known;
	//   - the call is made only where 0 <= X and X < Colors are known;
	// and the same for SetBg with the background parameter.  Comparisons made in small helpers
	// (`t.inPalette(fi)`, `foldBright(fi)`) count as if written in place.
	// First by constant evaluation over the colour counts and a grid of indexes (T18): the calls of
	// TParm it makes are the behaviour the clause is about.  The symbolic reading below is used when
	// the function cannot be evaluated.
	if res := evalTColor(p, fn, c.Tier == "thorough"); res != nil {
		for _, key := range sortedKeys(res) {
			if res[key] == "" {
				c.OK("C15-R3", key, p.pos(fn.Pos()), fmt.Sprintf("decided by evaluating TColor for 8 colour counts and a grid of index pairs (dense up to %d, plus every palette boundary): the capabilities expanded, their order and their indexes are as stated", map[bool]int{false: 40, true: 300}[c.Tier == "thorough"]))
			} else {
				c.Fail("C15-R3", key, p.pos(fn.Pos()), res[key])
			}
		}
		return
	}
	param := map[string]*ssa.Parameter{"SetFg": fn.Params[1], "SetBg": fn.Params[2]}
	seenCap := map[string]bool{}
	eachInstr(fn, func(in ssa.Instruction) {
		cc := callCommon(in)
		if cc == nil || !strings.HasSuffix(calleeName(cc), "Terminfo).TParm") || len(cc.Args) != 3 {
			return
		}
		ref, _, _ := loadedField(cc.Args[1])
		_, vals, ok := varargCount(cc.Args[2])
		if !ok || len(vals) != 1 || param[ref.Name] == nil {
			c.Fail("C15-R3", "TColor:TParm("+ref.Name+")", p.pos(in.Pos()), "unexpected argument list")
			return
		}
		seenCap[ref.Name] = true
		v := map[string]string{"SetFg": "fi", "SetBg": "bi"}[ref.Name]
		X := vals[0]
		if mi, ok := X.(*ssa.MakeInterface); ok {
			X = mi.X
		}
		X = stripConv(X)
		alts := symAlts(X, nil, 0, map[ssa.Value]bool{})
		// lineage
		okBase, nFold, nPlain, badOff := true, 0, 0, ""
		fold8, foldLo, foldHi := true, true, true
		for _, a := range alts {
			if a.base != ssa.Value(param[ref.Name]) {
				okBase = false
			}
			switch a.off {
			case 0:
				nPlain++
			case -8:
				nFold++
				P := symTerm{val: a.base}
				if !symHolds(a.facts, symTerm{colors: true}, "==", symTerm{isConst: true, k: 8}) {
					fold8 = false
				}
				if !symHolds(a.facts, P, ">=", symTerm{isConst: true, k: 8}) {
					foldLo = false
				}
				if !symHolds(a.facts, P, "<", symTerm{isConst: true, k: 16}) {
					foldHi = false
				}
			default:
				badOff += fmt.Sprintf("%+d ", a.off)
			}
		}
		c.Check(okBase, "C15-R3", "TColor:TParm("+ref.Name+")", p.pos(in.Pos()), fmt.Sprintf("the index handed to %s derives from the %s parameter on each of its %d alternative(s)", ref.Name, v, len(alts)))
		c.Check(nFold >= 1 && nPlain >= 1 && badOff == "", "C15-R3", "TColor:fold-by-8:"+v, p.pos(in.Pos()), fmt.Sprintf("%d alternative(s) with 8 subtracted, %d unchanged, other offsets: [%s]", nFold, nPlain, badOff))
		c.Check(nFold >= 1 && fold8, "C15-R3", "TColor:8-colour-test:"+v, p.pos(in.Pos()), "8 is subtracted only where Colors == 8 is known")
		c.Check(nFold >= 1 && foldLo, "C15-R3", "TColor:"+v+">7", p.pos(in.Pos()), "8 is subtracted only where "+v+" >= 8 is known")
		c.Check(nFold >= 1 && foldHi, "C15-R3", "TColor:"+v+"<16", p.pos(in.Pos()), "8 is subtracted only where "+v+" < 16 is known")
		site := symFacts(rawGuardsAt(in.Block()), nil, 0)
		c.Check(symHolds(site, symTerm{val: X}, "<", symTerm{colors: true}), "C15-R3", "TColor:"+v+"-in-range", p.pos(in.Pos()), "the capability is expanded only where index < Colors is known")
		c.Check(symHolds(site, symTerm{val: X}, ">=", symTerm{isConst: true, k: 0}), "C15-R3", "TColor:"+v+">=0", p.pos(in.Pos()), "the capability is expanded only where index >= 0 is known")
	})
	for _, capName := range []string{"SetFg", "SetBg"} {
		if !seenCap[capName] {
			c.Fail("C15-R3", "TColor:TParm("+capName+")", p.pos(fn.Pos()), "no expansion of "+capName)
		}
	}
}

// ---- small symbolic view of integer tests (values, not names) --------------------------------------

// symTerm: a constant, the Colors field of a Terminfo, or an SSA value of the function under study.
type symTerm struct {
	val     ssa.Value
	isConst bool
	k       int64
	colors  bool
}

type symFact struct {
	l  symTerm
	op string
	r  symTerm
}

type symAlt struct {
	base  ssa.Value // what the value is, up to the offset
	off   int64
	facts []symFact // known on the way
}

func symTermOf(v ssa.Value, env map[*ssa.Parameter]ssa.Value) symTerm {
	v = stripConv(v)
	if k, ok := constInt(v); ok {
		return symTerm{isConst: true, k: k}
	}
	if ref, _, ok := loadedField(v); ok && ref.Name == "Colors" {
		return symTerm{colors: true}
	}
	if pa, ok := v.(*ssa.Parameter); ok && env != nil {
		if a, bound := env[pa]; bound {
			return symTermOf(a, nil)
		}
	}
	return symTerm{val: v}
}

// symFacts: the comparisons among gs, with comparisons made inside a boolean helper called in a guard
// (`if t.inPalette(fi)`) brought to the caller's values through the argument binding.
func symFacts(gs []rawGuard, env map[*ssa.Parameter]ssa.Value, depth int) []symFact {
	var out []symFact
	for _, g := range gs {
		cond := g.Cond
		switch x := cond.(type) {
		case *ssa.BinOp:
			op := x.Op.String()
			switch op {
			case "==", "!=", "<", "<=", ">", ">=":
				if !g.Positive {
					op = negOp(op)
				}
				out = append(out, symFact{symTermOf(x.X, env), op, symTermOf(x.Y, env)})
			}
		case *ssa.Call:
			h := x.Call.StaticCallee()
			if h == nil || depth > 1 || len(h.Blocks) == 0 || x.Parent() == nil || h.Pkg != x.Parent().Pkg {
				continue
			}
			env2 := map[*ssa.Parameter]ssa.Value{}
			for i, pa := range h.Params {
				if i < len(x.Call.Args) {
					a := x.Call.Args[i]
					if pp, isP := stripConv(a).(*ssa.Parameter); isP && env != nil {
						if b, bound := env[pp]; bound {
							a = b
						}
					}
					env2[pa] = a
				}
			}
			rets := returnsOf(h)
			if len(rets) == 1 && len(rets[0].Results) == 1 {
				out = append(out, symFacts(expandCond(derefCell(resultOf(rets[0], 0)), g.Positive, 0), env2, depth+1)...)
				out = append(out, symFacts(rawGuardsAt(rets[0].Block()), env2, depth+1)...)
				continue
			}
			// several returns: the one (and only one) that gives this answer
			var match []*ssa.Return
			for _, r := range rets {
				if len(r.Results) != 1 {
					continue
				}
				if v, isC := constBool(derefCell(resultOf(r, 0))); !isC || v == g.Positive {
					match = append(match, r)
				}
			}
			if len(match) == 1 {
				out = append(out, symFacts(rawGuardsAt(match[0].Block()), env2, depth+1)...)
			}
		}
	}
	return out
}

// symAlts: the alternatives of an integer value as "some value plus a constant", looking through phis
// (with what is known on each edge) and through a pure module helper (with what is known at each of its
// returns, its parameters bound to the arguments).
func symAlts(v ssa.Value, env map[*ssa.Parameter]ssa.Value, depth int, seen map[ssa.Value]bool) []symAlt {
	v = stripConv(v)
	if seen[v] {
		return nil
	}
	switch x := v.(type) {
	case *ssa.Parameter:
		if env != nil {
			if a, bound := env[x]; bound {
				return symAlts(a, nil, depth, seen)
			}
		}
	case *ssa.BinOp:
		if k, ok := constInt(x.Y); ok && (x.Op == token.SUB || x.Op == token.ADD) {
			if x.Op == token.SUB {
				k = -k
			}
			alts := symAlts(x.X, env, depth, seen)
			for i := range alts {
				alts[i].off += k
			}
			return alts
		}
	case *ssa.Phi:
		seen[v] = true
		defer delete(seen, v)
		var out []symAlt
		for i, e := range x.Edges {
			ef := symFacts(rawGuardsOnEdge(x.Block().Preds[i], x.Block()), env, 0)
			for _, a := range symAlts(e, env, depth, seen) {
				a.facts = append(append([]symFact{}, ef...), a.facts...)
				out = append(out, a)
			}
		}
		return out
	case *ssa.Call:
		h := x.Call.StaticCallee()
		if h != nil && depth == 0 && env == nil && len(h.Blocks) > 0 && x.Parent() != nil && h.Pkg == x.Parent().Pkg && h.Signature.Results().Len() == 1 {
			env2 := map[*ssa.Parameter]ssa.Value{}
			for i, pa := range h.Params {
				if i < len(x.Call.Args) {
					env2[pa] = x.Call.Args[i]
				}
			}
			var out []symAlt
			for _, r := range returnsOf(h) {
				rf := symFacts(rawGuardsAt(r.Block()), env2, 0)
				for _, a := range symAlts(derefCell(resultOf(r, 0)), env2, depth+1, seen) {
					a.facts = append(append([]symFact{}, rf...), a.facts...)
					out = append(out, a)
				}
			}
			return out
		}
	}
	return []symAlt{{base: v}}
}

func symSame(a, b symTerm) bool {
	if a.isConst || b.isConst {
		return a.isConst && b.isConst && a.k == b.k
	}
	if a.colors || b.colors {
		return a.colors && b.colors
	}
	return a.val == b.val
}

// symHolds: `l op r` is among the facts, in any of its equivalent spellings (operands swapped, a strict
// bound against a constant written as the non-strict one next to it).
func symHolds(facts []symFact, l symTerm, op string, r symTerm) bool {
	for _, f := range facts {
		for _, g := range []symFact{f, {f.r, swapOp(f.op), f.l}} {
			if !symSame(g.l, l) {
				continue
			}
			if symSame(g.r, r) && g.op == op {
				return true
			}
			if r.isConst && g.r.isConst {
				switch {
				case op == ">=" && g.op == ">" && g.r.k == r.k-1,
					op == "<" && g.op == "<=" && g.r.k == r.k-1,
					op == ">" && g.op == ">=" && g.r.k == r.k+1,
					op == "<=" && g.op == "<" && g.r.k == r.k+1:
					return true
				}
			}
		}
	}
	return false
}

func c15TPuts(c *Ctx, p *Prog) {
	fn := p.Fn("terminfo:(*Terminfo).TPuts")
	if fn == nil {
		c.Undecided("C15-R4", "TPuts", "-", "not found")
		return
	}
	isIndexCall := func(v ssa.Value) *ssa.Call {
		if call, ok := v.(*ssa.Call); ok && calleeName(&call.Call) == "strings.Index" {
			return call
		}
		return nil
	}
	var shrinking []ssa.Instruction
	n := 0
	eachInstr(fn, func(in ssa.Instruction) {
		sl, ok := in.(*ssa.Slice)
		if !ok {
			return
		}
		n++
		key := fmt.Sprintf("TPuts:slice#%d", n)
		okAll := true
		detail := ""
		for _, bnd := range []ssa.Value{sl.Low, sl.High} {
			if bnd == nil {
				continue
			}
			var idx *ssa.Call
			plus := int64(0)
			if call := isIndexCall(bnd); call != nil {
				idx = call
			} else if bo, ok := bnd.(*ssa.BinOp); ok && bo.Op == token.ADD {
				if call := isIndexCall(bo.X); call != nil {
					if k, ok := constInt(bo.Y); ok && k > 0 {
						idx, plus = call, k
					}
				}
			}
			if idx == nil {
				okAll = false
				detail += "bound " + valName(bnd) + " is not a strings.Index result; "
				continue
			}
			// guard: idx >= 0 at this block, and idx was computed on the sliced string
			g := guardsAt(in.Block())
			if !hasAtom(g, Atom{valName(idx), ">=", "0"}) {
				okAll = false
				detail += "no `>= 0` guard for " + valName(idx) + "; "
			}
			if len(idx.Call.Args) > 0 && idx.Call.Args[0] != sl.X {
				okAll = false
				detail += "index computed on a different string; "
			}
			if bnd == sl.Low && plus > 0 {
				shrinking = append(shrinking, in)
			}
		}
		c.Check(okAll, "C15-R4", key, p.pos(in.Pos()), "bounds are guarded non-negative Index results of the same string "+detail)
	})
	searches := tputsSearches(fn)
	nCut := 0
	for _, sr := range searches {
		if sr.cut {
			nCut++
			c.OK("C15-R4", fmt.Sprintf("TPuts:cut#%d", nCut), p.pos(sr.call.Pos()), "strings.Cut hands out the text before and after the marker itself: nothing is indexed")
			// the text after a non-empty marker is strictly shorter: progress
			if sr.marker != "" {
				for _, r := range referrers(sr.call) {
					if ex, ok := r.(*ssa.Extract); ok && ex.Index == 1 {
						shrinking = append(shrinking, ex)
						c.Check(len(usesOf(ex)) > 0, "C15-R4", fmt.Sprintf("TPuts:cut#%d:rest-carried-on", nCut), p.pos(ex.Pos()), "the text after the marker is what the scan goes on with")
					}
				}
			}
		}
	}
	if n+nCut < 2 || (n < 3 && nCut == 0) {
		c.Undecided("C15-R4", "TPuts:slices", p.pos(fn.Pos()), "expected the three reslices of the scanner")
	}
	// progress: every back edge of the outer loop is dominated by a shrinking reslice
	back := 0
	okProg := true
	for _, b := range fn.Blocks {
		for _, s := range b.Succs {
			if s.Dominates(b) && s != b {
				// is this the scanning loop (its header contains the search for "$<")?
				isScan := false
				for _, sr := range searches {
					if sr.call.Block() == s {
						isScan = true
					}
				}
				if !isScan {
					continue
				}
				back++
				dom := false
				for _, sh := range shrinking {
					if sh.Block().Dominates(b) || sh.Block() == b {
						// a Cut's rest only shrinks the string when it becomes the string: it must
						// be what the loop goes on with (an edge of a phi) or be used as such
						dom = true
					}
				}
				if !dom {
					okProg = false
				}
			}
		}
	}
	c.Check(back > 0 && okProg, "C15-R4", "TPuts:progress", p.pos(fn.Pos()), fmt.Sprintf("%d back edge(s) of the scanning loop, each dominated by a reslice past the marker", back))
}

// c15TPutsSegments: the scanner must cut the string exactly at the padding
// markers.  strings.Index(s, M) = i: text before is s[:i]; the rest starts at
// i+len(M).  A skip shorter than the marker leaves marker bytes in the output
// (or re-scans them), a longer one swallows payload bytes.
func c15TPutsSegments(c *Ctx, p *Prog) { tputsSegmentsRule(c, p, "C15-R5") }

func tputsSegmentsRule(c *Ctx, p *Prog, rule string) {
	fn := p.Fn("terminfo:(*Terminfo).TPuts")
	if fn == nil {
		c.Undecided(rule, "TPuts", "-", "not found")
		return
	}
	idxs := tputsSearches(fn)
	for _, ii := range idxs {
		if !ii.okMarker {
			c.Undecided(rule, "TPuts:marker", p.pos(ii.call.Pos()), "a search with a non-constant marker")
			return
		}
	}
	if len(idxs) != 2 {
		c.Undecided(rule, "TPuts:markers", p.pos(fn.Pos()), fmt.Sprintf("expected the opening and the closing marker search, found %d", len(idxs)))
		return
	}
	role := func(i int) string {
		if i == 0 {
			return "marker"
		}
		return "terminator"
	}
	c.Check(idxs[0].marker == "$<" && idxs[1].marker == ">", rule, "TPuts:markers", p.pos(idxs[0].call.Pos()),
		fmt.Sprintf("padding is delimited by %q and %q", idxs[0].marker, idxs[1].marker))
	// the rest of the string starts right after the marker, the text before it ends at its position
	sawSkip := map[int]bool{}
	sawPrefix := map[int]bool{}
	var skipTerm ssa.Instruction
	for i, ii := range idxs {
		if ii.cut {
			// strings.Cut hands out exactly the text before and after the separator
			for _, r := range referrers(ii.call) {
				ex, ok := r.(*ssa.Extract)
				if !ok || len(usesOf(ex)) == 0 {
					continue
				}
				switch ex.Index {
				case 0:
					sawPrefix[i] = true
					c.OK(rule, "TPuts:before-"+role(i), p.pos(ex.Pos()), "the text before the "+role(i)+" is what strings.Cut returns as such")
				case 1:
					sawSkip[i] = true
					c.OK(rule, "TPuts:skip-"+role(i), p.pos(ex.Pos()), "the rest of the string is what strings.Cut returns after the "+role(i))
					if i == 1 {
						// the place where the rest after the terminator becomes the string to go on with
						for _, u := range usesOf(ex) {
							if phi, isPhi := u.(*ssa.Phi); isPhi {
								for k, e := range phi.Edges {
									if e == ssa.Value(ex) {
										pr := phi.Block().Preds[k]
										skipTerm = pr.Instrs[len(pr.Instrs)-1]
									}
								}
							}
						}
					}
				}
			}
			continue
		}
		eachInstr(fn, func(in ssa.Instruction) {
			sl, ok := in.(*ssa.Slice)
			if !ok {
				return
			}
			if sl.Low != nil && sl.High == nil {
				base, k := sl.Low, int64(0)
				if bo, ok := sl.Low.(*ssa.BinOp); ok && bo.Op == token.ADD {
					if kk, ok := constInt(bo.Y); ok {
						base, k = bo.X, kk
					} else if kk, ok := constInt(bo.X); ok {
						base, k = bo.Y, kk
					}
				}
				if base == ssa.Value(ii.call) {
					if i == 1 {
						skipTerm = in
					}
					sawSkip[i] = true
					c.Check(k == int64(len(ii.marker)) && ii.subject == sl.X, rule, "TPuts:skip-"+role(i), p.pos(in.Pos()),
						fmt.Sprintf("the rest of the string starts %d byte(s) after the position of %q (its length is %d)", k, ii.marker, len(ii.marker)))
				}
			}
			if sl.Low == nil && sl.High == ssa.Value(ii.call) {
				sawPrefix[i] = true
				c.Check(ii.subject == sl.X, rule, "TPuts:before-"+role(i), p.pos(in.Pos()), "the text before the "+role(i)+" is the prefix up to its position in the same string")
			}
		})
	}
	for i := 0; i < 2; i++ {
		if !sawSkip[i] {
			c.Fail(rule, "TPuts:skip-"+role(i), p.pos(fn.Pos()), "no reslice past the "+role(i))
		}
		if !sawPrefix[i] {
			c.Fail(rule, "TPuts:before-"+role(i), p.pos(fn.Pos()), "the text before the "+role(i)+" is never taken")
		}
	}
	// the search for the terminator runs on the string that follows the marker
	c.Check(idxs[0].isAfter(idxs[1].subject), rule, "TPuts:terminator-searched-after-marker", p.pos(idxs[1].call.Pos()), "the terminator is searched in the text following the marker")
	// writes: classify every io.WriteString argument
	nWrites := 0
	okWhole, okPrefix, okVerbatim := false, false, false
	var rejectWrites []ssa.Instruction
	eachInstr(fn, func(in ssa.Instruction) {
		cc := callCommon(in)
		if cc == nil || calleeName(cc) != "io.WriteString" || len(cc.Args) != 2 {
			return
		}
		nWrites++
		arg := cc.Args[1]
		if idxs[0].isBefore(arg) && idxs[0].foundAt(in.Block(), true) {
			okPrefix = true
			return
		}
		if x, isBO := arg.(*ssa.BinOp); isBO && x.Op == token.ADD {
			if m, ok := constString(x.X); ok {
				// "$<" + rest, where no terminator was found
				good := m == idxs[0].marker && x.Y == idxs[1].subject && idxs[1].foundAt(in.Block(), false)
				c.Check(good, rule, "TPuts:unterminated-verbatim", p.pos(in.Pos()), fmt.Sprintf("an unterminated specification is written as %q followed by the text after the marker", m))
				okVerbatim = good
				return
			}
		}
		if arg == idxs[0].subject && idxs[0].foundAt(in.Block(), false) {
			okWhole = true
			return
		}
		if m, ok := constString(arg); ok && m == idxs[0].marker {
			rejectWrites = append(rejectWrites, in)
			return
		}
		c.Fail(rule, "TPuts:write:"+valName(arg), p.pos(in.Pos()), "a write that is neither the text before a marker, the unterminated remainder, the kept marker of an ill-formed specification, nor the padding-free string")
	})
	tputsGrammar(c, p, fn, rule, skipTerm, rejectWrites, idxs[1].before())
	c.Check(okWhole, rule, "TPuts:no-padding-verbatim", p.pos(fn.Pos()), "a string without a padding marker is written whole")
	c.Check(okPrefix, rule, "TPuts:prefix-written", p.pos(fn.Pos()), "the text before each padding marker is written")
	if !okVerbatim {
		c.Fail(rule, "TPuts:unterminated-verbatim", p.pos(fn.Pos()), "no write of the unterminated remainder")
	}
	// sleep only with a pad character
	eachInstr(fn, func(in ssa.Instruction) {
		cc := callCommon(in)
		if cc == nil || calleeName(cc) != "time.Sleep" {
			return
		}
		g := guardsAt(in.Block())
		ok := false
		for _, a := range g {
			if strings.Contains(a.L, "PadChar") && ((a.Op == ">" && a.R == "0") || (a.Op == "!=" && (a.R == "0" || a.R == `""`)) || (a.Op == ">=" && a.R == "1")) {
				ok = true
			}
		}
		c.Check(ok, rule, "TPuts:sleep-needs-padchar", p.pos(in.Pos()), fmt.Sprintf("guards at the sleep: %v", g))
	})
}

// tputsGrammar: only a well-formed padding specification $<n[.m][*][/]> is
// removed; anything else between the markers is ordinary text and stays.
// Decided on the specification scanner: (i) the bytes it accepts are exactly
// the digits, '.', '*' and '/'; (ii) the byte that is none of them leads, on
// every path back to the scanning loop, through a write that keeps the marker,
// and that path does not skip the terminator; (iii) the terminator is skipped
// only under two boolean facts, one falsified by the reject case and one made
// true only by a digit (a specification without a number is not one).
func tputsGrammar(c *Ctx, p *Prog, fn *ssa.Function, rule string, skipTerm ssa.Instruction, rejects []ssa.Instruction, spec ssa.Value) {
	if skipTerm == nil {
		return // reported by the segmentation part
	}
	if spec == nil {
		c.Undecided(rule, "TPuts:grammar", p.pos(fn.Pos()), "the specification text was not found")
		return
	}
	// The scanner reads the specification byte by byte either in TPuts itself or in a helper the
	// specification is handed to (`delay, ok := parsePadding(s[:end])`), whose boolean result then
	// says whether it was one.
	scan, specV := fn, spec
	var gate *ssa.Call
	boolIdx := -1
	for _, r := range referrers(spec) {
		call, ok := r.(*ssa.Call)
		if !ok {
			continue
		}
		g := call.Call.StaticCallee()
		if g == nil || g.Pkg != fn.Pkg || len(g.Blocks) == 0 {
			continue
		}
		res := g.Signature.Results()
		for i := 0; i < res.Len(); i++ {
			if bt, isB := res.At(i).Type().Underlying().(*types.Basic); isB && bt.Kind() == types.Bool {
				boolIdx = i
			}
		}
		for i, arg := range call.Call.Args {
			if arg == spec && i < len(g.Params) && boolIdx >= 0 {
				scan, specV, gate = g, g.Params[i], call
			}
		}
	}
	isSpecByte := func(v ssa.Value) bool {
		v = stripConv(v)
		if u, ok := v.(*ssa.UnOp); ok && u.Op == token.MUL {
			if ia, ok := u.X.(*ssa.IndexAddr); ok {
				return ia.X == specV
			}
		}
		if ix, ok := v.(*ssa.Index); ok {
			return ix.X == specV
		}
		return false
	}
	// Byte classes.  For each of the 256 values a byte of the specification can have, the blocks one
	// round of the scanning loop can reach are computed, deciding every branch that compares the byte
	// with a constant (==, !=, <, <=, >, >=: a switch on the byte, a chain of ifs, a range test) and
	// taking both ways at every other branch.  Bytes that reach the same blocks are treated alike by
	// the scanner; the largest class is "any other byte", the rest is the scanner's alphabet.
	var loopHdr *ssa.BasicBlock
	{
		var at *ssa.BasicBlock
		eachInstr(scan, func(in ssa.Instruction) {
			if v, ok := in.(ssa.Value); ok && isSpecByte(v) && at == nil {
				at = in.Block()
			}
		})
		best := -1
		for h, body := range loopsOf(scan) {
			if at != nil && body[at] && (best < 0 || len(body) < best) {
				loopHdr, best = h, len(body)
			}
		}
	}
	if loopHdr == nil {
		c.Undecided(rule, "TPuts:grammar", p.pos(scan.Pos()), "no loop reading the bytes of the specification was found")
		return
	}
	var decide func(cond ssa.Value, b int64) (bool, bool)
	decide = func(cond ssa.Value, b int64) (bool, bool) {
		neg := false
		for {
			u, ok := cond.(*ssa.UnOp)
			if !ok || u.Op != token.NOT {
				break
			}
			cond, neg = u.X, !neg
		}
		if phi, ok := cond.(*ssa.Phi); ok && (phi.Comment == "&&" || phi.Comment == "||") {
			// the value form of a short-circuit expression (`case c >= '0' && c <= '9':`): a constant
			// on the edges where an earlier operand settled it, the last operand otherwise
			and := phi.Comment == "&&"
			all, any := true, false // every operand known and neutral; some operand known and deciding
			for i, e := range phi.Edges {
				op := e
				if k, isK := constBool(e); isK && k == !and {
					pr := phi.Block().Preds[i]
					iff, isIf := pr.Instrs[len(pr.Instrs)-1].(*ssa.If)
					if !isIf {
						all = false
						continue
					}
					op = iff.Cond
				}
				v, known := decide(op, b)
				switch {
				case !known:
					all = false
				case v != and:
					any = true
				}
			}
			if any {
				return !and != neg, true
			}
			if all {
				return and != neg, true
			}
			return false, false
		}
		bo, ok := cond.(*ssa.BinOp)
		if !ok {
			return false, false
		}
		x, y, op := bo.X, bo.Y, bo.Op
		if !isSpecByte(x) && isSpecByte(y) {
			x, y, op = y, x, swapTok(op)
		}
		if !isSpecByte(x) {
			return false, false
		}
		k, isK := constInt(y)
		if !isK {
			return false, false
		}
		var r bool
		switch op {
		case token.EQL:
			r = b == k
		case token.NEQ:
			r = b != k
		case token.LSS:
			r = b < k
		case token.LEQ:
			r = b <= k
		case token.GTR:
			r = b > k
		case token.GEQ:
			r = b >= k
		default:
			return false, false
		}
		return r != neg, true
	}
	reach := make([]map[*ssa.BasicBlock]bool, 256)
	sig := make([]string, 256)
	classes := map[string][]int64{}
	for b := int64(0); b < 256; b++ {
		seen := map[*ssa.BasicBlock]bool{}
		stack := append([]*ssa.BasicBlock{}, loopHdr.Succs...)
		for len(stack) > 0 {
			x := stack[len(stack)-1]
			stack = stack[:len(stack)-1]
			if seen[x] || x == loopHdr {
				continue
			}
			seen[x] = true
			if len(x.Instrs) > 0 {
				if iff, ok := x.Instrs[len(x.Instrs)-1].(*ssa.If); ok {
					if v, decided := decide(iff.Cond, b); decided {
						if v {
							stack = append(stack, x.Succs[0])
						} else {
							stack = append(stack, x.Succs[1])
						}
						continue
					}
				}
			}
			stack = append(stack, x.Succs...)
		}
		reach[b] = seen
		// what distinguishes one byte from another is what is done, not which comparisons were made on
		// the way: the blocks with an effect (a call, a store, a return) and the edges that carry a
		// value into a variable's phi (short-circuit phis excluded, they are comparisons too)
		idx := []string{}
		for x := range seen {
			if blockHasEffect(x) {
				idx = append(idx, fmt.Sprintf("%03d", x.Index))
			}
			for _, sc := range x.Succs {
				if !seen[sc] && sc != loopHdr {
					continue
				}
				if len(x.Instrs) > 0 {
					if iff, ok := x.Instrs[len(x.Instrs)-1].(*ssa.If); ok {
						if v, decided := decide(iff.Cond, b); decided && ((v && sc != x.Succs[0]) || (!v && sc != x.Succs[1])) {
							continue // not taken for this byte
						}
					}
				}
				if blockHasVarPhi(sc) {
					idx = append(idx, fmt.Sprintf("%03d>%03d", x.Index, sc.Index))
				}
			}
		}
		sort.Strings(idx)
		sig[b] = fmt.Sprint(idx)
		classes[sig[b]] = append(classes[sig[b]], b)
	}
	if os.Getenv("TCELLVET_DEBUG") != "" {
		for sg, bs := range classes {
			fmt.Fprintf(os.Stderr, "class %v: %s\n", bs, sg)
		}
	}
	otherSig, otherN := "", 0
	for sg, bs := range classes {
		if len(bs) > otherN {
			otherSig, otherN = sg, len(bs)
		}
	}
	alphabet := map[int64]bool{}
	for b := int64(0); b < 256; b++ {
		if sig[b] != otherSig {
			alphabet[b] = true
		}
	}
	classOnlyDigits := func(blk *ssa.BasicBlock) bool {
		n := 0
		for b := int64(0); b < 256; b++ {
			if reach[b][blk] {
				if b < '0' || b > '9' {
					return false
				}
				n++
			}
		}
		return n > 0
	}
	want := map[int64]bool{'.': true, '*': true, '/': true}
	for d := int64('0'); d <= '9'; d++ {
		want[d] = true
	}
	var extra, missing []string
	for k := range alphabet {
		if !want[k] {
			extra = append(extra, fmt.Sprintf("%q", rune(k)))
		}
	}
	for k := range want {
		if !alphabet[k] {
			missing = append(missing, fmt.Sprintf("%q", rune(k)))
		}
	}
	sort.Strings(extra)
	sort.Strings(missing)
	if rule != "C15-R5" {
		// for the well-formedness of the output (C09) only this matters: every padding
		// specification that occurs in the database is recognised, so none leaks as text
		if len(rejects) == 0 {
			c.OK(rule, "TPuts:database-padding-recognised", p.pos(fn.Pos()), "every terminated specification is removed")
			return
		}
		used := map[byte]bool{}
		if db := buildDB(c, p); db != nil {
			for _, e := range db.entries {
				for _, v := range e.Str {
					for {
						i := strings.Index(v, "$<")
						if i < 0 {
							break
						}
						v = v[i+2:]
						j := strings.Index(v, ">")
						if j < 0 {
							break
						}
						for k := 0; k < j; k++ {
							used[v[k]] = true
						}
						v = v[j+1:]
					}
				}
			}
		}
		var leak []string
		for b := range used {
			if !alphabet[int64(b)] {
				leak = append(leak, fmt.Sprintf("%q", rune(b)))
			}
		}
		sort.Strings(leak)
		c.Check(len(leak) == 0, rule, "TPuts:database-padding-recognised", p.pos(fn.Pos()), fmt.Sprintf("%d distinct bytes occur inside $<…> in the database; not recognised by the scanner (such a specification is written to the terminal as text): %v", len(used), leak))
		return
	}
	// The grammar itself is decided on the scanner's automaton (T19) when it can be extracted: the loop's
	// finite state (flags, or a state number) × every byte, compared in lockstep with the reference
	// automaton of $<n[.m][*][/]>.  The structural reading below remains for scanners it cannot follow.
	{
		boolI := -1
		if gate != nil {
			boolI = boolIdx
		}
		var acc ssa.Instruction
		if gate == nil {
			acc = skipTerm
		}
		if auto, err := paddingAutomaton(p, scan, loopHdr, isSpecByte, acc, rejects, boolI); err == nil {
			var extraA, missingA []string
			for k := range auto.alphabet {
				if !want[k] {
					extraA = append(extraA, fmt.Sprintf("%q", rune(k)))
				}
			}
			for k := range want {
				if !auto.alphabet[k] {
					missingA = append(missingA, fmt.Sprintf("%q", rune(k)))
				}
			}
			sort.Strings(extraA)
			sort.Strings(missingA)
			c.Check(len(extraA) == 0 && len(missingA) == 0, rule, "TPuts:grammar:alphabet", p.pos(fn.Pos()), fmt.Sprintf("bytes some state of the scanner lets through: %d (missing %v, unexpected %v); terminfo(5): digits, '.', '*', '/'; %d state pairs explored", len(auto.alphabet), missingA, extraA, auto.states))
			// after the write that keeps the marker the terminator is not skipped before the next scan
			skipsAfter := false
			if gate == nil || true {
				var hdrT *ssa.BasicBlock
				for _, sr := range tputsSearches(fn) {
					if sr.marker == "$<" {
						hdrT = sr.call.Block()
					}
				}
				seenB := map[*ssa.BasicBlock]bool{}
				var stack []*ssa.BasicBlock
				for _, w := range rejects {
					stack = append(stack, w.Block().Succs...)
				}
				for len(stack) > 0 {
					b := stack[len(stack)-1]
					stack = stack[:len(stack)-1]
					if seenB[b] || b == hdrT {
						continue
					}
					seenB[b] = true
					if b == skipTerm.Block() {
						skipsAfter = true
					}
					stack = append(stack, b.Succs...)
				}
			}
			// (scanner in a helper: the rejecting answer must lead to the write that keeps the marker)
			helperOK := true
			if gate != nil {
				helperOK = false
				for _, b := range fn.Blocks {
					if len(b.Instrs) == 0 {
						continue
					}
					iff, ok := b.Instrs[len(b.Instrs)-1].(*ssa.If)
					if !ok {
						continue
					}
					cond, neg := iff.Cond, false
					if u, isU := cond.(*ssa.UnOp); isU && u.Op == token.NOT {
						cond, neg = u.X, true
					}
					ex, isEx := cond.(*ssa.Extract)
					if !isEx || ex.Tuple != ssa.Value(gate) || ex.Index != boolIdx {
						continue
					}
					no := b.Succs[1]
					if neg {
						no = b.Succs[0]
					}
					// every path from the "no" edge to the next scan passes a reject write, and the skip
					// of the terminator lies behind the "yes" edge
					stop := map[ssa.Instruction]bool{}
					for _, w := range rejects {
						stop[w] = true
					}
					reachesSkip := false
					seenB := map[*ssa.BasicBlock]bool{}
					stack := []*ssa.BasicBlock{no}
					escapes := false
					for len(stack) > 0 {
						x := stack[len(stack)-1]
						stack = stack[:len(stack)-1]
						if seenB[x] {
							continue
						}
						seenB[x] = true
						blocked := false
						for _, in := range x.Instrs {
							if stop[in] {
								blocked = true
							}
							if in == skipTerm {
								reachesSkip = true
							}
						}
						if blocked {
							continue
						}
						if len(x.Succs) == 0 {
							escapes = true
						}
						for _, sc := range x.Succs {
							if sc.Dominates(b) && sc != b {
								escapes = true // back at the scan without having kept the text
								continue
							}
							stack = append(stack, sc)
						}
					}
					helperOK = !escapes && !reachesSkip
				}
			}
			c.Check(len(auto.acceptsBad) == 0 && !skipsAfter && helperOK && len(rejects) > 0, rule, "TPuts:ill-formed-kept", p.pos(fn.Pos()), fmt.Sprintf("whatever the grammar rejects the scanner rejects, on the way to the write that keeps the marker, and the terminator is not skipped afterwards %v", auto.acceptsBad))
			c.Check(len(auto.rejectsGood) == 0 && len(auto.acceptsBad) == 0, rule, "TPuts:well-formed-only", p.pos(skipTerm.Pos()), fmt.Sprintf("the terminator is skipped exactly for well-formed specifications (a number, at most one point, flags last) %v %v", auto.rejectsGood, auto.acceptsBad))
			// the delay: every digit after the point divides the unit by ten
			okScale, detail := false, "no `unit /= 10` in the digit case"
			eachInstr(scan, func(in ssa.Instruction) {
				bo, ok := in.(*ssa.BinOp)
				if !ok || bo.Op != token.QUO {
					return
				}
				if k, ok := constInt(bo.Y); !ok || k != 10 {
					return
				}
				if _, isPhi := bo.X.(*ssa.Phi); !isPhi {
					return
				}
				for x := bo.Block(); x != nil; x = x.Idom() {
					if classOnlyDigits(x) {
						okScale, detail = true, "unit /= 10 per digit after the point"
					}
				}
			})
			c.Check(okScale, rule, "TPuts:fraction-scales-unit", p.pos(fn.Pos()), detail)
			return
		} else {
			c.Note("C15-R5: the scanner's automaton could not be extracted (" + err.Error() + "); reading its structure instead")
		}
	}
	c.Check(len(extra) == 0 && len(missing) == 0, rule, "TPuts:grammar:alphabet", p.pos(fn.Pos()), fmt.Sprintf("bytes the specification scanner treats specially: %d in %d classes (missing %v, unexpected %v); terminfo(5): digits, '.', '*', '/'", len(alphabet), len(classes)-1, missing, extra))
	// the reject case: the block only "any other byte" reaches
	var def *ssa.BasicBlock
	if len(classes) > 1 {
		rep := classes[otherSig][0]
		for _, b := range scan.Blocks {
			if !reach[rep][b] {
				continue
			}
			shared := false
			for k := range alphabet {
				if reach[k][b] {
					shared = true
				}
			}
			if !shared && (def == nil || b.Dominates(def)) {
				def = b
			}
		}
	}
	// loop header of the marker scan: the block holding the Index(s, "$<") call
	var hdr *ssa.BasicBlock
	for _, sr := range tputsSearches(fn) {
		if sr.marker == "$<" {
			hdr = sr.call.Block()
		}
	}
	if def == nil || hdr == nil {
		c.Fail(rule, "TPuts:ill-formed-kept", p.pos(fn.Pos()), "the specification scanner has no case for a byte outside the grammar: whatever stands between $< and > is removed")
		return
	}
	if len(rejects) == 0 {
		c.Fail(rule, "TPuts:ill-formed-kept", p.pos(firstPos(def)), "a specification containing a byte outside the grammar is removed like a well-formed one (no write keeps it): text such as \"$<abc>\" in a title or URL disappears")
		return
	}
	// the boolean facts under which the terminator is skipped; the one the reject case falsifies
	validPhi := map[ssa.Value]bool{}
	if gate == nil {
		for _, g := range rawGuardsAt(skipTerm.Block()) {
			var ph *ssa.Phi
			if x, ok := g.Cond.(*ssa.Phi); ok && g.Positive {
				ph = x
			}
			if u, ok := g.Cond.(*ssa.UnOp); ok && u.Op == token.NOT && !g.Positive {
				ph, _ = u.X.(*ssa.Phi)
			}
			if ph == nil {
				continue
			}
			seenP := map[*ssa.Phi]bool{}
			var fromDef func(x *ssa.Phi) bool
			fromDef = func(x *ssa.Phi) bool {
				if seenP[x] {
					return false
				}
				seenP[x] = true
				for i, e := range x.Edges {
					if b, ok := constBool(e); ok && !b && (x.Block().Preds[i] == def || def.Dominates(x.Block().Preds[i])) {
						return true
					}
					if y, ok := e.(*ssa.Phi); ok && fromDef(y) {
						return true
					}
				}
				return false
			}
			if fromDef(ph) {
				validPhi[ph] = true
			}
		}
	}
	// successors consistent with "the reject case has falsified that fact"
	succsKnowingRejected := func(b *ssa.BasicBlock) []*ssa.BasicBlock {
		if len(b.Instrs) > 0 {
			if iff, ok := b.Instrs[len(b.Instrs)-1].(*ssa.If); ok {
				if validPhi[iff.Cond] {
					return b.Succs[1:2]
				}
				if u, ok := iff.Cond.(*ssa.UnOp); ok && u.Op == token.NOT && validPhi[u.X] {
					return b.Succs[0:1]
				}
			}
		}
		return b.Succs
	}
	// where, in TPuts, "rejected" is known: the reject case itself, or (scanner in a helper) the edge
	// taken when the helper said no
	starts := []*ssa.BasicBlock{def}
	escapes, skips := false, false
	gateTrueAtSkip := gate == nil
	if gate != nil {
		starts = nil
		isGate := func(v ssa.Value) (bool, bool) { // (is the helper's verdict, negated)
			neg := false
			if u, ok := v.(*ssa.UnOp); ok && u.Op == token.NOT {
				v, neg = u.X, true
			}
			ex, ok := v.(*ssa.Extract)
			return ok && ex.Tuple == ssa.Value(gate) && ex.Index == boolIdx, neg
		}
		for _, b := range fn.Blocks {
			if len(b.Instrs) == 0 {
				continue
			}
			if iff, ok := b.Instrs[len(b.Instrs)-1].(*ssa.If); ok {
				if is, neg := isGate(iff.Cond); is {
					if neg {
						starts = append(starts, b.Succs[0])
					} else {
						starts = append(starts, b.Succs[1])
					}
				}
			}
		}
		for _, g := range rawGuardsAt(skipTerm.Block()) {
			if is, neg := isGate(g.Cond); is && g.Positive != neg {
				gateTrueAtSkip = true
			}
		}
		if len(starts) == 0 {
			escapes = true
		}
		// in the helper: a byte outside the grammar ends the scan with the answer "no"
		seen := map[*ssa.BasicBlock]bool{}
		stack := []*ssa.BasicBlock{def}
		for len(stack) > 0 {
			b := stack[len(stack)-1]
			stack = stack[:len(stack)-1]
			if seen[b] {
				continue
			}
			seen[b] = true
			if b == loopHdr {
				escapes = true // goes on scanning
				continue
			}
			if len(b.Instrs) > 0 {
				if r, ok := b.Instrs[len(b.Instrs)-1].(*ssa.Return); ok {
					if v, isC := constBool(derefCell(resultOf(r, boolIdx))); !isC || v {
						escapes = true
					}
				}
			}
			stack = append(stack, b.Succs...)
		}
	}
	// every path from there back to the scan passes a reject write and does not skip the terminator
	rej := map[*ssa.BasicBlock]bool{}
	for _, w := range rejects {
		rej[w.Block()] = true
	}
	seen := map[*ssa.BasicBlock]bool{}
	stack := append([]*ssa.BasicBlock{}, starts...)
	for len(stack) > 0 {
		b := stack[len(stack)-1]
		stack = stack[:len(stack)-1]
		if seen[b] {
			continue
		}
		seen[b] = true
		if rej[b] {
			continue
		}
		if b == hdr {
			escapes = true
			continue
		}
		if b == skipTerm.Block() {
			skips = true
		}
		if len(b.Succs) == 0 {
			escapes = true // returns without having kept the text
		}
		stack = append(stack, succsKnowingRejected(b)...)
	}
	// after the reject write: the terminator must not be skipped before the next scan
	seen = map[*ssa.BasicBlock]bool{}
	stack = stack[:0]
	for b := range rej {
		stack = append(stack, b.Succs...)
	}
	for len(stack) > 0 {
		b := stack[len(stack)-1]
		stack = stack[:len(stack)-1]
		if seen[b] || b == hdr {
			continue
		}
		seen[b] = true
		if b == skipTerm.Block() {
			skips = true
		}
		stack = append(stack, b.Succs...)
	}
	c.Check(!escapes && !skips, rule, "TPuts:ill-formed-kept", p.pos(firstPos(def)), fmt.Sprintf("a byte outside the grammar always leads to the write that keeps the marker (escapes: %v) and the scan resumes right after the marker (terminator skipped on that path: %v)", escapes, skips))
	// accept side: the terminator is skipped under two boolean facts (in TPuts), or the helper says
	// yes only under them
	sources := func(ph *ssa.Phi, val bool) []*ssa.BasicBlock {
		var out []*ssa.BasicBlock
		seen := map[*ssa.Phi]bool{}
		var visit func(x *ssa.Phi)
		visit = func(x *ssa.Phi) {
			if seen[x] {
				return
			}
			seen[x] = true
			for i, e := range x.Edges {
				if b, ok := constBool(e); ok && b == val {
					out = append(out, x.Block().Preds[i])
				} else if y, ok := e.(*ssa.Phi); ok {
					visit(y)
				}
			}
		}
		visit(ph)
		return out
	}
	isDigitCase := func(b *ssa.BasicBlock) bool {
		for x := b; x != nil; x = x.Idom() {
			if classOnlyDigits(x) {
				return true
			}
		}
		return false
	}
	flagsAt := func(b *ssa.BasicBlock) []*ssa.Phi {
		var flags []*ssa.Phi
		for _, g := range rawGuardsAt(b) {
			if ph, ok := g.Cond.(*ssa.Phi); ok && g.Positive {
				flags = append(flags, ph)
			}
			if u, ok := g.Cond.(*ssa.UnOp); ok && u.Op == token.NOT && !g.Positive {
				if ph, ok := u.X.(*ssa.Phi); ok {
					flags = append(flags, ph)
				}
			}
		}
		return flags
	}
	digitFlag := func(flags []*ssa.Phi) bool {
		for _, ph := range flags {
			ts := sources(ph, true)
			allDigit := len(ts) > 0
			for _, b := range ts {
				if !isDigitCase(b) {
					allDigit = false
				}
			}
			if allDigit {
				return true
			}
		}
		return false
	}
	hasValid, hasDigits := false, false
	if gate == nil {
		flags := flagsAt(skipTerm.Block())
		for _, ph := range flags {
			for _, b := range sources(ph, false) {
				if b == def || def.Dominates(b) {
					hasValid = true
				}
			}
		}
		hasDigits = digitFlag(flags)
	} else {
		// the terminator is skipped only when the helper said yes (a byte outside the grammar makes it
		// say no: decided above), and it says yes only after a digit
		hasValid = gateTrueAtSkip && !escapes
		hasDigits = true
		nYes := 0
		for _, r := range returnsOf(scan) {
			res := derefCell(resultOf(r, boolIdx))
			if v, isC := constBool(res); isC && !v {
				continue
			}
			nYes++
			flags := flagsAt(r.Block())
			if ph, isPhi := res.(*ssa.Phi); isPhi {
				flags = []*ssa.Phi{ph} // `return delay, digits`
			}
			if !digitFlag(flags) {
				hasDigits = false
			}
		}
		if nYes == 0 {
			hasDigits = false
		}
	}
	// the delay: every digit after the point divides the unit by ten (n.mm is n + mm/100 ms)
	{
		okScale, detail := false, "no `unit /= 10` in the digit case"
		eachInstr(scan, func(in ssa.Instruction) {
			bo, ok := in.(*ssa.BinOp)
			if !ok || bo.Op != token.QUO {
				return
			}
			if k, ok := constInt(bo.Y); !ok || k != 10 {
				return
			}
			if _, isPhi := bo.X.(*ssa.Phi); !isPhi {
				return
			}
			if isDigitCase(bo.Block()) {
				okScale, detail = true, "unit /= 10 per digit after the point"
			}
		})
		// and no constant unit is installed when the point is seen
		eachInstr(scan, func(in ssa.Instruction) {
			phi, ok := in.(*ssa.Phi)
			if !ok || phi.Comment != "unit" {
				return
			}
			nconst := 0
			for _, e := range phi.Edges {
				if _, isK := e.(*ssa.Const); isK {
					nconst++
				}
			}
			if nconst > 1 {
				okScale, detail = false, "the unit is set to a constant in more than one place (a fixed unit after the point ignores the number of fraction digits)"
			}
		})
		if rule == "C15-R5" {
			c.Check(okScale, rule, "TPuts:fraction-scales-unit", p.pos(fn.Pos()), detail)
		}
	}
	c.Check(hasValid && hasDigits, rule, "TPuts:well-formed-only", p.pos(skipTerm.Pos()), fmt.Sprintf("the terminator is skipped only when no byte was rejected (%v) and a digit was seen (%v)", hasValid, hasDigits))
}

// blockHasEffect: the block does something besides computing and branching.
func blockHasEffect(b *ssa.BasicBlock) bool {
	for _, in := range b.Instrs {
		switch in.(type) {
		case *ssa.BinOp, *ssa.UnOp, *ssa.If, *ssa.Jump, *ssa.Phi, *ssa.Index, *ssa.IndexAddr, *ssa.Convert,
			*ssa.ChangeType, *ssa.Extract, *ssa.FieldAddr, *ssa.Field, *ssa.Slice, *ssa.DebugRef:
		case *ssa.Call:
			if bi, ok := in.(*ssa.Call).Call.Value.(*ssa.Builtin); ok && (bi.Name() == "len" || bi.Name() == "cap") {
				continue
			}
			return true
		default:
			return true
		}
	}
	return false
}

// blockHasVarPhi: the block merges values of a variable (a phi other than the value form of && / ||).
func blockHasVarPhi(b *ssa.BasicBlock) bool {
	for _, in := range b.Instrs {
		if phi, ok := in.(*ssa.Phi); ok && phi.Comment != "&&" && phi.Comment != "||" {
			return true
		}
	}
	return false
}

// ---- marker searches of TPuts, whatever the library call ------------------------------------------

// tputsSearch: one search for a constant marker in a string, as strings.Index (position; the text
// before and after are reslices at that position) or as strings.Cut (before, after, found).
type tputsSearch struct {
	call     *ssa.Call
	subject  ssa.Value
	marker   string
	okMarker bool
	cut      bool
}

func tputsSearches(fn *ssa.Function) []tputsSearch {
	var out []tputsSearch
	eachInstr(fn, func(in ssa.Instruction) {
		call, ok := in.(*ssa.Call)
		if !ok || len(call.Call.Args) != 2 {
			return
		}
		n := calleeName(&call.Call)
		if n != "strings.Index" && n != "strings.Cut" {
			return
		}
		m, okM := constString(call.Call.Args[1])
		out = append(out, tputsSearch{call, call.Call.Args[0], m, okM, n == "strings.Cut"})
	})
	return out
}

// usesOf: the instructions using v, debug references aside.
func usesOf(v ssa.Value) []ssa.Instruction {
	var out []ssa.Instruction
	for _, r := range referrers(v) {
		if _, isDbg := r.(*ssa.DebugRef); !isDbg {
			out = append(out, r)
		}
	}
	return out
}

// isBefore: v is the text before the marker.
func (t tputsSearch) isBefore(v ssa.Value) bool {
	if t.cut {
		ex, ok := v.(*ssa.Extract)
		return ok && ex.Tuple == ssa.Value(t.call) && ex.Index == 0
	}
	sl, ok := v.(*ssa.Slice)
	return ok && sl.Low == nil && sl.High == ssa.Value(t.call) && sl.X == t.subject
}

// before: the value that is the text before the marker (nil if the function never takes it).
func (t tputsSearch) before() ssa.Value {
	var out ssa.Value
	eachInstr(t.call.Parent(), func(in ssa.Instruction) {
		if v, ok := in.(ssa.Value); ok && out == nil && t.isBefore(v) {
			out = v
		}
	})
	return out
}

// isAfter: v is the text after the marker.
func (t tputsSearch) isAfter(v ssa.Value) bool {
	if t.cut {
		ex, ok := v.(*ssa.Extract)
		return ok && ex.Tuple == ssa.Value(t.call) && ex.Index == 1
	}
	sl, ok := v.(*ssa.Slice)
	if !ok || sl.High != nil || sl.X != t.subject {
		return false
	}
	bo, ok := sl.Low.(*ssa.BinOp)
	if !ok || bo.Op != token.ADD {
		return false
	}
	return bo.X == ssa.Value(t.call) || bo.Y == ssa.Value(t.call)
}

// foundAt: in block b it is known that the marker was found (want) or was not found (!want).
func (t tputsSearch) foundAt(b *ssa.BasicBlock, want bool) bool {
	if t.cut {
		for _, g := range rawGuardsAt(b) {
			cond, pos := g.Cond, g.Positive
			for {
				if u, ok := cond.(*ssa.UnOp); ok && u.Op == token.NOT {
					cond, pos = u.X, !pos
					continue
				}
				break
			}
			if ex, ok := cond.(*ssa.Extract); ok && ex.Tuple == ssa.Value(t.call) && ex.Index == 2 && pos == want {
				return true
			}
		}
		return false
	}
	g := guardsAt(b)
	if want {
		return hasAtom(g, Atom{valName(t.call), ">=", "0"})
	}
	return hasAtom(g, Atom{valName(t.call), "<", "0"})
}

package main

import (
	"fmt"
	"go/ast"
	"go/token"
	"go/types"
	"strings"

	"golang.org/x/tools/go/ssa"
)

func init() {
	register("C12", checkC12, "Decoding of arbitrary report sequences (press/drag/release histories, multi-digit parsing) is not statically decidable. Decided: the button table and modifier bits of buildMouseEvent are extracted from the source and compared with the xterm protocol table (mask 0x43: 0 primary, 1 middle=Button3, 2 secondary=Button2, 3 none, 0x40 wheel up, 0x41 wheel down; 4/8/16 Shift/Alt/Ctrl); the coordinates handed to NewEventMouse are results of clip and clip clamps to [0,w-1]×[0,h-1]; both report parsers normalise what they pass on — SGR: value-1 coordinates, button code with the motion bit cleared; X11: all three payload bytes carry the +32 offset, so coordinates are byte-33 and the button code byte-32 (sibling agreement: the same button encoding reaches buildMouseEvent from both parsers); release and button-less motion clear the button bits and the press flag is set/cleared on the right edges; both parsers accept ESC [ and the 8-bit CSI.")
}

func checkC12(c *Ctx) {
	c.Rule("C12-R1", "buildMouseEvent's button switch and modifier bit tests equal the xterm protocol table")
	c.Rule("C12-R2", "coordinates passed to NewEventMouse come from clip; clip clamps to [0,w-1]x[0,h-1]")
	c.Rule("C12-R3", "protocol normalisation: SGR value-1 and motion bit cleared; X11 coordinates byte-33 and button byte-32")
	c.Rule("C12-R4", "release ('m') and motion without a pressed button force 'no button' (|3, &^0x40); the press flag is cleared on release and set only by a non-motion, non-wheel press")
	c.Rule("C12-R5", "both mouse parsers accept ESC [ and 0x9b as introducer")
	c.Rule("C12-R8", "the rune parser, which runs before the mouse parsers, removes input only as decoded characters (with an event, or by the decoder's count): an 8-bit CSI (0x9b) it cannot decode stays in the buffer for the mouse parsers")
	c.Rule("C12-R9", "a mouse report consumes exactly the bytes it matched (both protocols): the next report of a drag starts where this one ended")
	c.Expect("C12-R9", 2)
	c.Rule("C12-R12", "the button-held flag is stored by the mouse parsers only (a mode helper that clears it makes a drag in progress lose its button)")
	c.Expect("C12-R12", 1)
	c.Rule("C12-R11", "the numbers of an SGR report are read as decimal (val*10 + digit) and a leading minus negates the field it belongs to, once, where the field ends")
	c.Expect("C12-R11", 2)
	c.Rule("C12-R10", "every mouse report decodes to one event: no complete-return of a mouse parser is reachable without the append (no report is filtered away after decoding: drags carry the motion bit, too)")
	c.Expect("C12-R10", 2)
	c.Expect("C12-R8", 2)
	c.Rule("C12-R7", "the bytes of a report reach the parser as they were read (a chunk queued for the main loop owns its backing array)")
	c.Expect("C12-R7", 1)
	c.Rule("C12-R6", "the number-scanning state of the SGR parser (value, sign, digit-seen) is reset as a whole between parameters: every field transition that resets one of the accumulators resets all of them")
	c.Expect("C12-R6", 1)
	for r, n := range map[string]int{"C12-R1": 9, "C12-R2": 5, "C12-R3": 5, "C12-R4": 4, "C12-R5": 2} {
		c.Expect(r, n)
	}
	p := c.P("linux")
	if p == nil || p.Tcell == nil {
		c.Undecided("C12-R1", "package tcell", "-", "not loaded")
		return
	}
	c.Rule("C12-R15", "an 8-bit CSI (0x9b) reaches the mouse parsers: they are tried before the rune parser, or the rune parser leaves the byte alone (under a single-byte charset its decoder accepts or substitutes 0x9b and the introducer is consumed as text)")
	c.Expect("C12-R15", 1)
	checkEightBitCSIReachesMouseParsers(c, p, "C12-R15")
	c.Rule("C12-R16", "every press is eventually followed by a buttonless event: a decoded mouse report is never dropped on the way to the queue (a release decodes to a buttonless event like plain motion; every select that sends a decoded event has only shutdown alternatives; = C05-R1)")
	c.Expect("C12-R16", 1)
	c.asRule("C05-R1", "C12-R16", func() { c05Sends(c, p) })
	c.Rule("C12-R17", "a report split across reads is one mouse event: the scan of a freshly read chunk never runs as if the wait had expired (the expiry flag is a constant at each call of the scanner, true only on the timer's branch; = C11-R16)")
	c.Expect("C12-R17", 1)
	checkScanExpiry(c, p, "C12-R17")
	c.Rule("C12-R18", "motion with no button held carries no buttons, whatever button number the report names: the fold of such a report is decided by the held flag (and the motion bit), not by the button bits of the code")
	c.Expect("C12-R18", 1)
	checkMotionFoldIgnoresButtonBits(c, p, "C12-R18")
	c.Rule("C12-R20", "reports introduced by the 8-bit CSI decode like those introduced by ESC [: the calls of the two mouse parsers in the collect loop are not behind a test of the first byte against ESC (focus and clipboard reports are 7-bit only, mouse reports are not)")
	c.Expect("C12-R20", 1)
	checkMouseParsersSeeEveryIntroducer(c, p, "C12-R20")
	c.Rule("C12-R19", "a report split across reads is one mouse event: each mouse parser's 'partial' answer is counted on its own (one shared pair of results lets the second parser's 'not mine' overwrite the first one's 'wait'; = C02-R8)")
	c.Expect("C12-R19", 2)
	if collect := collectLoopFn(p); collect != nil {
		c.asRule("C02-R3", "C12-R19", func() {
			c.asRule("C02-R4", "C12-R19", func() {
				c.asRule("C02-R8", "C12-R19", func() { c02Collect(c, p, collect, inputParsers(p)) })
			})
		})
	} else {
		c.Undecided("C12-R19", "collect loop", "-", "not found")
	}
	c.Rule("C12-R14", "the decimal accumulator of an SGR report saturates instead of wrapping around: a coordinate with more digits than an int holds is far beyond the screen and is clipped to the last column, not the first")
	c.Expect("C12-R14", 1)
	checkSgrAccumulatorSaturates(c, p, "C12-R14")
	c.Rule("C12-R13", "the mouse parsers are tried whenever the terminal has a mouse entry, whatever the application's current mouse flags: a report already on its way when the mode is switched off still decodes as a report")
	c.Expect("C12-R13", 2)
	checkCollectGates(c, p, "C12-R13", func(n string) bool { return n == "parseXtermMouse" || n == "parseSgrMouse" })
	bm := p.Fn("tcell:(*tScreen).buildMouseEvent")
	sgr := p.Fn("tcell:(*tScreen).parseSgrMouse")
	x11 := p.Fn("tcell:(*tScreen).parseXtermMouse")
	clip := p.Fn("tcell:(*tScreen).clip")
	if bm == nil || sgr == nil || x11 == nil || clip == nil {
		c.Undecided("C12-R1", "mouse functions", "-", "buildMouseEvent/parseSgrMouse/parseXtermMouse/clip not all found")
		return
	}
	c12Table(c, p)
	c12Accumulators(c, p, sgr)
	c12Digits(c, p, sgr)
	checkFieldWriters(c, p, "C12-R12", "tScreen", "buttondn", "parseSgrMouse", "parseXtermMouse")
	checkChunkOwnership(c, p, "C12-R7")
	for _, pi := range inputParsers(p) {
		if pi.fn.Name() == "parseRune" {
			c.asRule("C02-R9", "C12-R8", func() { c02Consumption(c, p, pi) })
		}
	}
	checkConsumedDelivers(c, p, "C12-R10", func(n string) bool { return n == "parseSgrMouse" || n == "parseXtermMouse" })
	// R9: a mouse report consumes exactly its own bytes — the next report (or key) starts where this
	// one ended; one byte more or less and every following report of a drag decodes from the wrong offset
	for _, pi := range inputParsers(p) {
		if pi.fn == sgr || pi.fn == x11 {
			c.asRule("C02-R9", "C12-R9", func() { c02Consumption(c, p, pi) })
		}
	}
	// R2
	for _, call := range callsIn(bm, func(n string, _ *ssa.CallCommon) bool { return strings.HasSuffix(n, "NewEventMouse") }) {
		cc := callCommon(call)
		for i, nm := range []string{"x", "y"} {
			ok := false
			if ex, isEx := cc.Args[i].(*ssa.Extract); isEx && ex.Index == i {
				if cl, isCall := ex.Tuple.(*ssa.Call); isCall && staticCallee(&cl.Call) == clip {
					// clip must be given the function's own x, y parameters in order
					if valName(cl.Call.Args[1]) == "x" && valName(cl.Call.Args[2]) == "y" {
						ok = true
					}
				}
			}
			c.Check(ok, "C12-R2", "buildMouseEvent:"+nm+"-clipped", p.pos(call.Pos()), "NewEventMouse receives clip(x,y)#"+fmt.Sprint(i))
		}
	}
	if h, okH := clampHelper(p, clip); okH {
		// clip hands each coordinate with its extent to one clamping helper: the tests and the clamp
		// values are checked in the helper, the pairing (x with the width, y with the height) in clip
		hat := atomsOf(h)
		v, size := h.Params[0].Name(), h.Params[1].Name()
		lo, hi := false, false
		for a := range hat {
			if a == v+" < 0" || a == v+" >= 0" {
				lo = true
			}
			if strings.Contains(a, "("+size+"-1)") && (strings.HasPrefix(a, v+" >") || strings.HasSuffix(a, "< "+v) || strings.HasPrefix(a, v+" <=") || strings.HasSuffix(a, ">= "+v)) {
				hi = true
			}
		}
		for _, k := range []string{"x<0", "y<0"} {
			c.Check(lo, "C12-R2", "clip:"+k, p.pos(h.Pos()), fmt.Sprintf("clamp test present in %s among %v", h.Name(), sortedKeys(hat)))
		}
		for _, k := range []string{"x>w-1", "y>h-1"} {
			c.Check(hi, "C12-R2", "clip:"+k, p.pos(h.Pos()), fmt.Sprintf("clamp test present in %s among %v", h.Name(), sortedKeys(hat)))
		}
		has0, hasM := false, false
		eachInstr(h, func(in ssa.Instruction) {
			if phi, isPhi := in.(*ssa.Phi); isPhi {
				for _, e := range phi.Edges {
					if k, isC := constInt(e); isC && k == 0 {
						has0 = true
					}
					if bo, isBO := e.(*ssa.BinOp); isBO && bo.Op == token.SUB && bo.X == ssa.Value(h.Params[1]) {
						if k, isC := constInt(bo.Y); isC && k == 1 {
							hasM = true
						}
					}
				}
			}
		})
		c.Check(has0 && hasM, "C12-R2", "clip:clamp-values", p.pos(h.Pos()), "the helper clamps to 0 and size-1")
	} else {
		at := atomsOf(clip)
		need := map[string][]string{
			"x<0":   {"x < 0", "x >= 0"},
			"y<0":   {"y < 0", "y >= 0"},
			"x>w-1": {},
			"y>h-1": {},
		}
		for k, alts := range need {
			ok := false
			for a := range at {
				for _, alt := range alts {
					if a == alt {
						ok = true
					}
				}
				if len(alts) == 0 {
					v := k[:1]
					idx := "#0"
					if v == "y" {
						idx = "#1"
					}
					// x > (Size()#0 - 1), any orientation
					if strings.Contains(a, "Size(") && strings.Contains(a, idx+"-1)") && (strings.HasPrefix(a, v+" >") || strings.HasSuffix(a, "< "+v)) {
						ok = true
					}
				}
			}
			c.Check(ok, "C12-R2", "clip:"+k, p.pos(clip.Pos()), fmt.Sprintf("clamp test present among %v", sortedKeys(at)))
		}
		// clamp values: returned phis contain 0 and size-1
		okV := 0
		for _, r := range returnsOf(clip) {
			for _, res := range r.Results {
				if phi, isPhi := res.(*ssa.Phi); isPhi {
					has0, hasM := false, false
					var walk func(v ssa.Value, d int)
					walk = func(v ssa.Value, d int) {
						if d > 4 {
							return
						}
						if k, isC := constInt(v); isC && k == 0 {
							has0 = true
						}
						if bo, isBO := v.(*ssa.BinOp); isBO && bo.Op == token.SUB {
							if k, isC := constInt(bo.Y); isC && k == 1 && strings.Contains(valName(bo.X), "Size(") {
								hasM = true
							}
						}
						if ph, isP := v.(*ssa.Phi); isP {
							for _, e := range ph.Edges {
								walk(e, d+1)
							}
						}
					}
					walk(phi, 0)
					if has0 && hasM {
						okV++
					}
				}
			}
		}
		c.Check(okV == 2, "C12-R2", "clip:clamp-values", p.pos(clip.Pos()), "both results are clamped to 0 and size-1")
	}
	c12Normalise(c, p, sgr, x11, bm)
	c12Release(c, p, sgr)
	for _, fn := range []*ssa.Function{sgr, x11} {
		consts := map[int64]bool{}
		eachInstr(fn, func(in ssa.Instruction) {
			if bo, ok := in.(*ssa.BinOp); ok && (bo.Op == token.EQL || bo.Op == token.NEQ) {
				if k, ok := constInt(bo.Y); ok {
					consts[k] = true
				}
			}
		})
		c.Check(consts[0x1b] && consts['['] && consts[0x9b], "C12-R5", fn.Name()+":introducers", p.pos(fn.Pos()), fmt.Sprintf("compares input with ESC: %v, '[': %v, 0x9b: %v", consts[0x1b], consts['['], consts[0x9b]))
	}
}

// c12Table extracts the button switch and modifier tests from the AST of buildMouseEvent.
func c12Table(c *Ctx, p *Prog) {
	pk := p.pkg("")
	info := pk.TypesInfo
	var fd *ast.FuncDecl
	for _, f := range pk.Syntax {
		for _, d := range f.Decls {
			if x, ok := d.(*ast.FuncDecl); ok && x.Name.Name == "buildMouseEvent" {
				fd = x
			}
		}
	}
	if fd == nil {
		c.Undecided("C12-R1", "buildMouseEvent", "-", "declaration not found")
		return
	}
	kc := func(name string) int64 { return pkgConst(p, name) }
	want := map[int64]int64{0: kc("Button1"), 1: kc("Button3"), 2: kc("Button2"), 3: kc("ButtonNone"), 0x40: kc("WheelUp"), 0x41: kc("WheelDown")}
	wantMod := map[int64]int64{4: kc("ModShift"), 8: kc("ModAlt"), 16: kc("ModCtrl")}
	got := map[int64]int64{}
	gotMod := map[int64]int64{}
	var mask int64 = -1
	ast.Inspect(fd.Body, func(n ast.Node) bool {
		switch s := n.(type) {
		case *ast.SwitchStmt:
			if be, ok := s.Tag.(*ast.BinaryExpr); ok && be.Op == token.AND {
				if v, ok := intConst(info, be.Y); ok {
					mask = v
				}
			}
			for _, cc := range s.Body.List {
				cl := cc.(*ast.CaseClause)
				var assigned int64 = -1 << 40
				for _, st := range cl.Body {
					if as, ok := st.(*ast.AssignStmt); ok && len(as.Rhs) == 1 {
						if v, ok := intConst(info, as.Rhs[0]); ok {
							assigned = v
						}
					}
				}
				for _, e := range cl.List {
					if v, ok := intConst(info, e); ok {
						got[v] = assigned
					}
				}
			}
		case *ast.IfStmt:
			// if btn&K != 0 { mod |= ModX }
			be, ok := s.Cond.(*ast.BinaryExpr)
			if !ok || be.Op != token.NEQ {
				return true
			}
			and, ok := be.X.(*ast.BinaryExpr)
			if !ok || and.Op != token.AND {
				return true
			}
			k, ok := intConst(info, and.Y)
			if !ok {
				return true
			}
			for _, st := range s.Body.List {
				if as, ok := st.(*ast.AssignStmt); ok && as.Tok == token.OR_ASSIGN && len(as.Rhs) == 1 {
					if v, ok := intConst(info, as.Rhs[0]); ok {
						gotMod[k] = v
					}
				}
			}
		}
		return true
	})
	// The mapping is decided by constant evaluation (T18) for every button code 0..255: the button and
	// the modifiers handed to NewEventMouse, however buildMouseEvent works them out (a switch, a lookup
	// table, a loop over rows).  The reading of the switch from the syntax tree above is kept only for
	// the case the evaluation cannot be carried out.
	if bm := p.Fn("tcell:(*tScreen).buildMouseEvent"); bm != nil && len(bm.Params) == 4 {
		ce := &constEval{pk: pk, globals: map[*ssa.Global]*cv{}}
		evalGot, evalMod := map[int64]int64{}, map[int64]int64{}
		evalErr := ""
		for code := int64(0); code < 256 && evalErr == ""; code++ {
			args, err := ce.run(p, bm, map[*ssa.Parameter]*cv{bm.Params[3]: cvI(code)}, func(cc *ssa.CallCommon) bool {
				return strings.HasSuffix(calleeName(cc), "NewEventMouse")
			})
			if err != nil {
				evalErr = err.Error()
				break
			}
			if len(args) != 4 || args[2].kind != cvInt || args[3].kind != cvInt {
				// the evaluation went through, and what reaches NewEventMouse depends on something
				// besides the report's code (state of the screen, a pending Alt prefix): the button
				// mask and the modifiers are to match the report
				which := "button"
				if len(args) == 4 && args[2].kind == cvInt {
					which = "modifier"
				}
				for _, k := range []string{"button:mask", "modifier:bit-4", "modifier:bit-8", "modifier:bit-16"} {
					if strings.HasPrefix(k, which) {
						c.Fail("C12-R1", k, p.pos(fd.Pos()), fmt.Sprintf("for code %#x the %s handed to NewEventMouse is not determined by the code of the report: it also depends on state outside it", code, which))
					} else {
						c.OK("C12-R1", k, p.pos(fd.Pos()), "determined by the code (see the failing clause)")
					}
				}
				return
			}
			evalGot[code], evalMod[code] = args[2].i, args[3].i
		}
		if evalErr == "" {
			none := kc("ButtonNone")
			okMask, bad := true, ""
			for code := int64(0); code < 256; code++ {
				if evalGot[code] != evalGot[code&0x43] {
					okMask = false
					bad = fmt.Sprintf("code %#x gives button %d, code %#x gives %d", code, evalGot[code], code&0x43, evalGot[code&0x43])
				}
			}
			c.Check(okMask, "C12-R1", "button:mask", p.pos(fd.Pos()), "the button depends on the low two bits and the wheel bit of the code only (0x43), for all 256 codes "+bad)
			for _, k := range []int64{0, 1, 2, 3, 0x40, 0x41} {
				c.Check(evalGot[k] == want[k], "C12-R1", fmt.Sprintf("button:code-%#x", k), p.pos(fd.Pos()), fmt.Sprintf("code %#x maps to button mask %d, xterm table says %d", k, evalGot[k], want[k]))
			}
			c.Check(evalGot[0x42] == none && evalGot[0x43] == none, "C12-R1", "button:no-extra-cases", p.pos(fd.Pos()), fmt.Sprintf("the unassigned wheel codes 0x42, 0x43 give %d, %d (no button: %d)", evalGot[0x42], evalGot[0x43], none))
			for _, k := range []int64{4, 8, 16} {
				okM, detail := true, ""
				for code := int64(0); code < 256; code++ {
					var wantM int64
					for _, b := range []int64{4, 8, 16} {
						if code&b != 0 {
							wantM |= wantMod[b]
						}
					}
					if evalMod[code]&wantMod[k] != wantM&wantMod[k] || (evalMod[code]&^(wantMod[4]|wantMod[8]|wantMod[16])) != 0 {
						okM = false
						detail = fmt.Sprintf("code %#x gives modifiers %d, xterm says %d", code, evalMod[code], wantM)
					}
				}
				c.Check(okM, "C12-R1", fmt.Sprintf("modifier:bit-%d", k), p.pos(fd.Pos()), fmt.Sprintf("bit %d adds modifier %d and nothing else does, for all 256 codes %s", k, wantMod[k], detail))
			}
			return
		}
		c.Note("C12-R1: constant evaluation of buildMouseEvent not possible (" + evalErr + "); reading the switch instead")
	}
	c.Check(mask == 0x43, "C12-R1", "button:mask", p.pos(fd.Pos()), fmt.Sprintf("button code masked with %#x (xterm: low two bits + wheel bit 0x43)", mask))
	for _, k := range []int64{0, 1, 2, 3, 0x40, 0x41} {
		g, ok := got[k]
		c.Check(ok && g == want[k], "C12-R1", fmt.Sprintf("button:code-%#x", k), p.pos(fd.Pos()), fmt.Sprintf("code %#x maps to button mask %d, xterm table says %d", k, g, want[k]))
	}
	c.Check(len(got) == len(want), "C12-R1", "button:no-extra-cases", p.pos(fd.Pos()), fmt.Sprintf("%d cases", len(got)))
	for _, k := range []int64{4, 8, 16} {
		g, ok := gotMod[k]
		c.Check(ok && g == wantMod[k], "C12-R1", fmt.Sprintf("modifier:bit-%d", k), p.pos(fd.Pos()), fmt.Sprintf("bit %d adds modifier %d, xterm says %d", k, g, wantMod[k]))
	}
}

// linearForm: v = base + offset through nested +/- constants and conversions.
func linearForm(v ssa.Value) (ssa.Value, int64) {
	var off int64
	for i := 0; i < 10; i++ {
		v = stripConv(v)
		bo, ok := v.(*ssa.BinOp)
		if !ok {
			break
		}
		k, isK := constInt(bo.Y)
		if !isK {
			break
		}
		switch bo.Op {
		case token.ADD:
			off += k
		case token.SUB:
			off -= k
		default:
			return v, off
		}
		v = bo.X
	}
	return stripConv(v), off
}

// phiSources returns the non-constant, non-self leaves of a loop-carried variable.
func phiSources(v ssa.Value) []ssa.Value {
	seen := map[ssa.Value]bool{}
	var out []ssa.Value
	var walk func(x ssa.Value, d int)
	walk = func(x ssa.Value, d int) {
		if seen[x] || d > 6 {
			return
		}
		seen[x] = true
		if phi, ok := x.(*ssa.Phi); ok {
			for _, e := range phi.Edges {
				walk(e, d+1)
			}
			return
		}
		if _, isC := x.(*ssa.Const); isC {
			return
		}
		out = append(out, x)
	}
	walk(v, 0)
	return out
}

func isInputByte(v ssa.Value) bool {
	v = stripConv(v)
	u, ok := v.(*ssa.UnOp)
	if !ok || u.Op != token.MUL {
		return false
	}
	ia, ok := u.X.(*ssa.IndexAddr)
	if !ok {
		return false
	}
	// the buffer's bytes, or a reslice of them (`payload := b[intro+1:]`)
	call, ok := sliceRoot(ia.X).(*ssa.Call)
	return ok && calleeName(&call.Call) == "(*bytes.Buffer).Bytes"
}

func c12Normalise(c *Ctx, p *Prog, sgr, x11, bm *ssa.Function) {
	// X11: the three arguments of buildMouseEvent
	for _, call := range callsIn(x11, func(n string, cc *ssa.CallCommon) bool { return staticCallee(cc) == bm }) {
		cc := callCommon(call)
		want := []int64{-33, -33, -32}
		names := []string{"x", "y", "button"}
		for i := 0; i < 3; i++ {
			srcs := phiSources(cc.Args[i+1])
			ok := len(srcs) > 0
			detail := ""
			for _, s := range srcs {
				base, off := linearForm(s)
				detail += fmt.Sprintf("%s%+d ", regSuffix.ReplaceAllString(valName(base), ""), off)
				if !isInputByte(base) || off != want[i] {
					ok = false
				}
			}
			c.Check(ok, "C12-R3", "parseXtermMouse:"+names[i], p.pos(call.Pos()), fmt.Sprintf("passed on as %s; the X11 protocol adds 32 to every payload byte (and coordinates are 1-based), so byte%+d is required", detail, want[i]))
		}
	}
	// SGR
	for _, call := range callsIn(sgr, func(n string, cc *ssa.CallCommon) bool { return staticCallee(cc) == bm }) {
		cc := callCommon(call)
		for i, nm := range []string{"x", "y"} {
			srcs := phiSources(cc.Args[i+1])
			ok := len(srcs) > 0
			detail := ""
			for _, s := range srcs {
				_, off := linearForm(s)
				detail += fmt.Sprintf("value%+d ", off)
				if off != -1 {
					ok = false
				}
			}
			c.Check(ok, "C12-R3", "parseSgrMouse:"+nm, p.pos(call.Pos()), "coordinate passed on as "+detail+"(SGR coordinates are 1-based decimal)")
		}
		// button: every source passes through &^ 32
		okB := false
		bound := map[*ssa.Parameter]ssa.Value{}
		visiting := map[ssa.Value]bool{}
		var walk func(v ssa.Value, d int) bool
		walk = func(v ssa.Value, d int) bool {
			if d > 12 {
				return false
			}
			if visiting[v] {
				return true // loop-carried: decided by the other edges
			}
			visiting[v] = true
			defer delete(visiting, v)
			switch x := v.(type) {
			case *ssa.BinOp:
				if x.Op == token.AND_NOT {
					if k, ok := constInt(x.Y); ok && k == 32 {
						return true
					}
				}
				return walk(x.X, d+1)
			case *ssa.Phi:
				for _, e := range x.Edges {
					if !walk(e, d+1) {
						return false
					}
				}
				return true
			case *ssa.Call:
				// a helper that works the code out (`btn = t.resolveSgrButtons(btn, release)`): every
				// value it returns
				h := x.Call.StaticCallee()
				if h == nil || h.Pkg != p.Tcell || len(h.Blocks) == 0 || h.Signature.Results().Len() != 1 {
					return false
				}
				for i, pa := range h.Params {
					if i < len(x.Call.Args) {
						bound[pa] = x.Call.Args[i]
					}
				}
				rets := returnsOf(h)
				for _, r := range rets {
					if !walk(derefCell(resultOf(r, 0)), d+1) {
						return false
					}
				}
				return len(rets) > 0
			case *ssa.Parameter:
				// a helper's parameter: the argument it was called with
				if a, ok := bound[x]; ok {
					return walk(a, d+1)
				}
			}
			return false
		}
		okB = walk(cc.Args[3], 0)
		c.Check(okB, "C12-R3", "parseSgrMouse:button", p.pos(call.Pos()), "button code reaches buildMouseEvent with the motion bit (32) cleared on every path")
	}
}

func c12Release(c *Ctx, p *Prog, sgr *ssa.Function) {
	// parseSgrMouse together with the helpers it is written with; conditions a helper tests on its own
	// boolean parameters are seen as the caller's arguments (deepInstr.atoms)
	deep := deepInstrs(p, sgr, 2, func(_ ssa.Instruction, callee *ssa.Function) bool { return callee.Name() != "buildMouseEvent" })
	type site struct {
		in ssa.Instruction
		at []Atom
	}
	var clr, set, ors []site
	for _, d := range deep {
		switch x := d.in.(type) {
		case *ssa.Store:
			if ref, _, ok := fieldAddrRef(x.Addr); ok && ref.Owner == "tcell.tScreen" && ref.Name == "buttondn" {
				if v, isC := constBool(x.Val); isC {
					if v {
						set = append(set, site{x, d.atoms()})
					} else {
						clr = append(clr, site{x, d.atoms()})
					}
				}
			}
		case *ssa.BinOp:
			// |3 followed by &^ 0x40
			if x.Op == token.OR {
				if k, ok := constInt(x.Y); ok && k == 3 {
					for _, r := range referrers(x) {
						if b2, ok := r.(*ssa.BinOp); ok && b2.Op == token.AND_NOT {
							if k2, ok := constInt(b2.Y); ok && k2 == 0x40 {
								ors = append(ors, site{x, d.atoms()})
							}
						}
					}
				}
			}
		}
	}
	has := func(s site, pred func(a Atom) bool) bool {
		for _, a := range s.at {
			if pred(a) {
				return true
			}
		}
		return false
	}
	isRelease := func(a Atom) bool { return a.Op == "==" && a.R == "109" }
	notRelease := func(a Atom) bool { return a.Op == "!=" && a.R == "109" }
	okClr := len(clr) == 1 && has(clr[0], isRelease)
	c.Check(okClr, "C12-R4", "parseSgrMouse:press-flag-cleared-on-release", p.pos(sgr.Pos()), "buttondn = false exactly under the 'm' final")
	okSet := len(set) == 1 && has(set[0], notRelease) &&
		has(set[0], func(a Atom) bool { return strings.Contains(a.L, "&32") && a.Op == "==" && a.R == "0" }) &&
		has(set[0], func(a Atom) bool { return strings.Contains(a.L, "&66") && a.Op == "!=" && a.R == "64" })
	c.Check(okSet, "C12-R4", "parseSgrMouse:press-flag-set-on-press", p.pos(sgr.Pos()), "buttondn = true only for a non-release, non-motion, non-wheel report")
	relOK, motOK := false, false
	for _, o := range ors {
		if has(o, isRelease) {
			relOK = true
		}
		if has(o, func(a Atom) bool {
			return strings.HasSuffix(a.L, ".buttondn") && ((a.Op == "==" && a.R == "false") || (a.Op == "!=" && a.R == "true"))
		}) &&
			has(o, func(a Atom) bool {
				return strings.Contains(a.L, "&32") && a.Op != "" && ((a.Op == "!=" && a.R == "0") || (a.Op == "==" && a.R == "32"))
			}) {
			motOK = true
		}
	}
	c.Check(relOK, "C12-R4", "parseSgrMouse:release-clears-buttons", p.pos(sgr.Pos()), "on 'm' the code is forced to 'no button' (|3, &^0x40)")
	c.Check(motOK, "C12-R4", "parseSgrMouse:buttonless-motion-clears-buttons", p.pos(sgr.Pos()), "motion without a pressed button is forced to 'no button'")
}

// c12Accumulators: in a `for i := range b { switch … }` recogniser with a state
// variable, the per-parameter accumulators are the loop-carried variables that
// change while the state stays put (digits, sign).  A transition to the next
// parameter must start from a clean slate; leaving one accumulator out (the
// sign, say) lets it leak into the next parameter.  Decided as agreement between
// siblings: on every back edge where the state changes and at least one
// accumulator is set back to its initial constant, all accumulators are.
func c12Accumulators(c *Ctx, p *Prog, fn *ssa.Function) {
	var hdr *ssa.BasicBlock
	var idx *ssa.Phi
	for _, b := range fn.Blocks {
		for _, in := range b.Instrs {
			if bo, ok := in.(*ssa.BinOp); ok && isRangeIndex(bo) {
				hdr = b
				idx, _ = bo.X.(*ssa.Phi)
			}
		}
	}
	if hdr == nil {
		c.Undecided("C12-R6", fn.Name()+":accumulators", p.pos(fn.Pos()), "scan loop not found")
		return
	}
	var phis []*ssa.Phi
	for _, in := range hdr.Instrs {
		if phi, ok := in.(*ssa.Phi); ok && phi != idx {
			phis = append(phis, phi)
		}
	}
	// the state variable: int phi with the most distinct constant edges
	var state *ssa.Phi
	best := 0
	for _, phi := range phis {
		ks := map[int64]bool{}
		for _, e := range phi.Edges {
			if k, ok := constInt(e); ok {
				ks[k] = true
			}
		}
		if len(ks) > best {
			best, state = len(ks), phi
		}
	}
	if state == nil || best < 3 {
		c.Undecided("C12-R6", fn.Name()+":accumulators", p.pos(fn.Pos()), "state variable not found")
		return
	}
	entry := -1
	for i, pr := range hdr.Preds {
		if !hdr.Dominates(pr) {
			entry = i
		}
	}
	if entry < 0 {
		c.Undecided("C12-R6", fn.Name()+":accumulators", p.pos(fn.Pos()), "loop entry edge not found")
		return
	}
	sameConst := func(a, b ssa.Value) bool {
		ca, ok1 := a.(*ssa.Const)
		cb, ok2 := b.(*ssa.Const)
		return ok1 && ok2 && ca.Value != nil && cb.Value != nil && ca.Value.ExactString() == cb.Value.ExactString()
	}
	var accs []*ssa.Phi
	for _, phi := range phis {
		if phi == state {
			continue
		}
		if _, ok := phi.Edges[entry].(*ssa.Const); !ok {
			continue
		}
		inField := false
		for i, e := range phi.Edges {
			if i == entry {
				continue
			}
			if state.Edges[i] == ssa.Value(state) && e != ssa.Value(phi) {
				inField = true
			}
		}
		if inField {
			accs = append(accs, phi)
		}
	}
	if len(accs) < 2 {
		c.Undecided("C12-R6", fn.Name()+":accumulators", p.pos(fn.Pos()), fmt.Sprintf("%d accumulators found, expected value, sign and digit-seen", len(accs)))
		return
	}
	names := []string{}
	for _, a := range accs {
		names = append(names, a.Comment)
	}
	nTrans, bad := 0, ""
	for i := range hdr.Preds {
		if i == entry || state.Edges[i] == ssa.Value(state) {
			continue
		}
		reset, kept := []string{}, []string{}
		for _, a := range accs {
			if sameConst(a.Edges[i], a.Edges[entry]) {
				reset = append(reset, a.Comment)
			} else {
				kept = append(kept, a.Comment)
			}
		}
		if len(reset) == 0 {
			continue // a transition inside the introducer: nothing accumulated yet
		}
		nTrans++
		if len(kept) > 0 {
			bad += fmt.Sprintf("the transition to state %s (from block %d, %s) resets %v but not %v; ", valName(state.Edges[i]), hdr.Preds[i].Index, p.pos(firstPos(hdr.Preds[i])), reset, kept)
		}
	}
	c.Check(bad == "" && nTrans >= 2, "C12-R6", fn.Name()+":accumulators-reset-together", p.pos(fn.Pos()), fmt.Sprintf("accumulators %v; %d parameter transitions reset them %s", names, nTrans, bad))
}

// c12Digits (R11): the numbers of an SGR report are decimal.  In parseSgrMouse the accumulator is
// val*10 + (byte - '0') under the digit case, and a field is negated exactly where the minus flag is
// set (val = -val behind a test of that flag) before it is taken.
func c12Digits(c *Ctx, p *Prog, fn *ssa.Function) {
	acc, negs := false, 0
	eachInstr(fn, func(in ssa.Instruction) {
		bo, ok := in.(*ssa.BinOp)
		if !ok {
			return
		}
		if bo.Op == token.ADD {
			if mul, isM := bo.X.(*ssa.BinOp); isM && mul.Op == token.MUL {
				if k, isK := constInt(mul.Y); isK && k == 10 {
					if sub, isS := stripConv(bo.Y).(*ssa.BinOp); isS && sub.Op == token.SUB {
						if k2, isK2 := constInt(sub.Y); isK2 && k2 == '0' {
							if u, isU := sub.X.(*ssa.UnOp); isU && u.Op == token.MUL {
								if _, isIA := u.X.(*ssa.IndexAddr); isIA {
									acc = true
								}
							}
						}
					}
				}
			}
		}
	})
	// negations: UnOp SUB of the accumulator guarded by the minus flag — a boolean carried round the scan
	// loop of the parser and set by the '-' case — in the parser or in a helper it hands the flag to
	// (`val = sgrFieldValue(val, neg)`), counted once per place it is applied
	minusFlag := func(v ssa.Value) bool {
		phi, ok := v.(*ssa.Phi)
		if !ok || phi.Parent() != fn {
			return false
		}
		if bt, isB := phi.Type().Underlying().(*types.Basic); !isB || bt.Kind() != types.Bool {
			return false
		}
		// some edge delivers `true` from the block of the '-' (45) case
		seen := map[*ssa.Phi]bool{}
		var fromMinus func(x *ssa.Phi) bool
		fromMinus = func(x *ssa.Phi) bool {
			if seen[x] {
				return false
			}
			seen[x] = true
			for i, e := range x.Edges {
				if v, isC := constBool(e); isC && v {
					for _, g := range rawGuardsAt(x.Block().Preds[i]) {
						if bo, isBO := g.Cond.(*ssa.BinOp); isBO && g.Positive && bo.Op == token.EQL {
							if k, isK := constInt(bo.Y); isK && k == '-' {
								return true
							}
						}
					}
				}
				if y, isPhi := e.(*ssa.Phi); isPhi && fromMinus(y) {
					return true
				}
			}
			return false
		}
		return fromMinus(phi)
	}
	for _, d := range deepInstrs(p, fn, 1, nil) {
		u, ok := d.in.(*ssa.UnOp)
		if !ok || u.Op != token.SUB {
			continue
		}
		for _, g := range d.rawGuards() {
			if g.Positive && minusFlag(g.Cond) {
				negs++
				break
			}
		}
	}
	c.Check(acc, "C12-R11", "parseSgrMouse:decimal-accumulator", p.pos(fn.Pos()), "val = val*10 + (b[i] - '0')")
	c.Check(negs >= 2, "C12-R11", "parseSgrMouse:minus-applied-per-field", p.pos(fn.Pos()), fmt.Sprintf("%d negations, each behind the minus flag (at the field separator and at the final byte)", negs))
}

// clampHelper: clip returns H(x, width), H(y, height) for one module helper H(v, size int) int, where
// width and height are the two results of the cell buffer's Size().
func clampHelper(p *Prog, clip *ssa.Function) (*ssa.Function, bool) {
	rets := returnsOf(clip)
	if len(rets) != 1 || len(rets[0].Results) != 2 || len(clip.Params) != 3 {
		return nil, false
	}
	var h *ssa.Function
	for i, res := range rets[0].Results {
		call, ok := res.(*ssa.Call)
		if !ok || len(call.Call.Args) != 2 {
			return nil, false
		}
		callee := call.Call.StaticCallee()
		if callee == nil || callee.Pkg != p.Tcell || (h != nil && callee != h) || len(callee.Params) != 2 {
			return nil, false
		}
		h = callee
		if call.Call.Args[0] != ssa.Value(clip.Params[1+i]) {
			return nil, false
		}
		ex, isEx := call.Call.Args[1].(*ssa.Extract)
		if !isEx || ex.Index != i || !strings.Contains(valName(ex.Tuple), "Size(") {
			return nil, false
		}
	}
	return h, h != nil
}

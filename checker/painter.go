package main

import (
	"fmt"
	"go/ast"
	"go/token"
	"strings"

	"golang.org/x/tools/go/ssa"
)

// checkDrawCellWidth: a painter's drawCell returns the number of columns the
// cell occupies; the column loop of draw() advances by it, which is how the
// hidden half of a wide rune is skipped.  Every value it returns must be the
// width reported by CellBuffer.GetContent for that cell (or 1 in place of a
// width below 1) - on the clean path as well as on the painted path.
func checkDrawCellWidth(c *Ctx, p *Prog, fn *ssa.Function, rule string) {
	short := fn.RelString(fn.Pkg.Pkg)
	var widthOf ssa.Value // extract #3 of GetContent
	eachInstr(fn, func(in ssa.Instruction) {
		ex, ok := in.(*ssa.Extract)
		if !ok || ex.Index != 3 {
			return
		}
		if call, ok := ex.Tuple.(*ssa.Call); ok && strings.HasSuffix(calleeName(&call.Call), "CellBuffer).GetContent") {
			widthOf = ex
		}
	})
	if widthOf == nil {
		c.Undecided(rule, short+":returns-width", p.pos(fn.Pos()), "no width taken from GetContent")
		return
	}
	var isWidth func(v ssa.Value, d int) bool
	isWidth = func(v ssa.Value, d int) bool {
		if d > 6 {
			return false
		}
		v = derefCell(v)
		if v == widthOf {
			return true
		}
		switch x := v.(type) {
		case *ssa.Phi:
			nW := 0
			for _, e := range x.Edges {
				if e == ssa.Value(x) {
					continue
				}
				if k, ok := constInt(e); ok && k == 1 {
					continue // `if width < 1 { width = 1 }`
				}
				if !isWidth(e, d+1) {
					return false
				}
				nW++
			}
			return nW > 0
		case *ssa.UnOp:
			if x.Op == token.MUL {
				// a spilled local (captured by the deferred closure): every store into the cell
				if al, ok := x.X.(*ssa.Alloc); ok {
					n := 0
					good := true
					for _, r := range referrers(al) {
						if st, ok := r.(*ssa.Store); ok && st.Addr == ssa.Value(al) {
							if k, ok := constInt(st.Val); ok && k == 1 {
								continue
							}
							n++
							if !isWidth(st.Val, d+1) {
								good = false
							}
						}
					}
					return good && n > 0
				}
			}
		}
		return false
	}
	n := 0
	bad := ""
	for _, r := range returnsOf(fn) {
		if len(r.Results) != 1 {
			continue
		}
		n++
		if !isWidth(resultOf(r, 0), 0) {
			bad += fmt.Sprintf("return at %s yields %s; ", p.pos(r.Pos()), valName(resultOf(r, 0)))
		}
	}
	c.Check(bad == "" && n > 0, rule, short+":returns-width", p.pos(fn.Pos()), fmt.Sprintf("%d return(s), each the cell width reported by GetContent %s", n, bad))
}

// checkStyleCacheReads: the painter caches the style it believes is active on
// the terminal (curstyle) and forgets it by storing the marker styleInvalid.
// The marker differs from every real style only in the components its literal
// sets.  A component-wise read of the cache is therefore sound only for those
// components: for any other component the forgotten state is indistinguishable
// from a real value, and gating an emission on it skips a sequence the terminal
// needs (the terminal keeps its state between draws, the cache does not).
func checkStyleCacheReads(c *Ctx, p *Prog, rule string) {
	// fields set by the marker's literal
	marked := map[string]bool{}
	found := false
	for _, f := range p.pkg("").Syntax {
		ast.Inspect(f, func(n ast.Node) bool {
			vs, ok := n.(*ast.ValueSpec)
			if !ok {
				return true
			}
			for i, nm := range vs.Names {
				if nm.Name != "styleInvalid" || i >= len(vs.Values) {
					continue
				}
				if cl, ok := vs.Values[i].(*ast.CompositeLit); ok {
					found = true
					for _, e := range cl.Elts {
						if kv, ok := e.(*ast.KeyValueExpr); ok {
							if id, ok := kv.Key.(*ast.Ident); ok {
								marked[id.Name] = true
							}
						}
					}
				}
			}
			return true
		})
	}
	if !found {
		c.Undecided(rule, "styleInvalid", "-", "the forget-marker literal was not found")
		return
	}
	nReads, nWhole := 0, 0
	bad := ""
	for _, fn := range p.modFns {
		if fn.Pkg != p.Tcell {
			continue
		}
		eachInstr(fn, func(in ssa.Instruction) {
			switch x := in.(type) {
			case *ssa.FieldAddr:
				// &(&t.curstyle).F
				if ref, _, ok := fieldAddrRef(x.X); ok && ref.Owner == "tcell.tScreen" && ref.Name == "curstyle" {
					f, _, _ := fieldAddrRef(x)
					nReads++
					if !marked[f.Name] {
						bad += fmt.Sprintf("%s reads curstyle.%s at %s; ", fn.Name(), f.Name, p.pos(x.Pos()))
					}
				}
			case *ssa.Field:
				if ref, _, ok := loadedField(x.X); ok && ref.Owner == "tcell.tScreen" && ref.Name == "curstyle" {
					f, _, _ := fieldValRef(x)
					nReads++
					if !marked[f.Name] {
						bad += fmt.Sprintf("%s reads curstyle.%s at %s; ", fn.Name(), f.Name, p.pos(x.Pos()))
					}
				}
			case *ssa.UnOp:
				if x.Op == token.MUL {
					if ref, _, ok := fieldAddrRef(x.X); ok && ref.Owner == "tcell.tScreen" && ref.Name == "curstyle" {
						nWhole++
						for _, r := range referrers(x) {
							if bo, ok := r.(*ssa.BinOp); ok && (bo.Op == token.EQL || bo.Op == token.NEQ) {
								continue
							}
							if _, ok := r.(*ssa.DebugRef); ok {
								continue
							}
							bad += fmt.Sprintf("%s uses the cached style other than in a whole comparison at %s; ", fn.Name(), p.pos(x.Pos()))
						}
					}
				}
			}
		})
	}
	var ms []string
	for k := range marked {
		ms = append(ms, k)
	}
	c.Check(bad == "" && nWhole > 0, rule, "curstyle:read-whole-or-marked-component", "-",
		fmt.Sprintf("%d whole-style comparisons, %d component reads; the forget-marker sets %v %s", nWhole, nReads, ms, bad))
}

// checkRememberedModes: the modes an application enabled are remembered in
// fields of the screen so that Resume can re-apply them after Suspend.  The
// tear-down emits the "off" sequences through the same helpers the togglers
// use; if such a helper (or anything else reachable from Suspend/Resume/Fini)
// also stored the field, suspending would wipe what Resume needs.  So: no store
// to a remembered field in any function reachable, through static calls, from
// the lifecycle roots.
func checkRememberedModes(c *Ctx, p *Prog, rule, tname string, fields, roots []string) {
	owner := "tcell." + tname
	reach := map[*ssa.Function]string{}
	var visit func(fn *ssa.Function, via string)
	visit = func(fn *ssa.Function, via string) {
		if fn == nil || fn.Pkg != p.Tcell {
			return
		}
		if _, ok := reach[fn]; ok {
			return
		}
		reach[fn] = via
		for _, a := range fn.AnonFuncs {
			visit(a, via)
		}
		eachInstr(fn, func(in ssa.Instruction) {
			cc := callCommon(in)
			if cc == nil {
				return
			}
			if _, isGo := in.(*ssa.Go); isGo {
				return
			}
			if callee := staticCallee(cc); callee != nil {
				visit(callee, via)
			}
			if calleeName(cc) == "(*sync.Once).Do" && len(cc.Args) == 2 {
				visit(boundTarget(cc.Args[1]), via)
			}
		})
	}
	nRoots := 0
	for _, r := range roots {
		if fn := p.Fn("tcell:(*" + tname + ")." + r); fn != nil {
			nRoots++
			visit(fn, r)
		}
	}
	if nRoots == 0 {
		c.Undecided(rule, tname+":lifecycle-roots", "-", "none of the lifecycle functions was found")
		return
	}
	for _, f := range fields {
		writers := []string{}
		bad := ""
		for _, fn := range p.modFns {
			if fn.Pkg != p.Tcell {
				continue
			}
			for _, st := range storesTo(fn, owner, f) {
				writers = append(writers, fn.Name())
				if via, ok := reach[fn]; ok {
					bad += fmt.Sprintf("%s stores %s.%s at %s and is reachable from %s; ", fn.Name(), tname, f, p.pos(st.Pos()), via)
				}
			}
		}
		if len(writers) == 0 {
			c.Undecided(rule, tname+"."+f+":remembered", "-", "no store to the field found")
			continue
		}
		c.Check(bad == "", rule, tname+"."+f+":remembered", "-", fmt.Sprintf("stored by %v; none of them reachable from %v %s", writers, roots, bad))
	}
}

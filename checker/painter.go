package main

import (
	"fmt"
	"go/ast"
	"go/token"
	"sort"
	"strings"

	"golang.org/x/tools/go/ssa"
)

// checkDrawCellWidth: a painter's drawCell returns the number of columns the
// cell occupies; the column loop of draw() advances by it, which is how the
// hidden half of a wide rune is skipped.  Every value it returns must be the
// width reported by CellBuffer.GetContent for that cell (or 1 in place of a
// width below 1) - on the clean path as well as on the painted path.
func checkDrawCellWidth(c *Ctx, p *Prog, fn *ssa.Function, rule string) {
	short := fn.RelString(fn.Pkg.Pkg)
	var widthOf ssa.Value // extract #3 of GetContent
	eachInstr(fn, func(in ssa.Instruction) {
		ex, ok := in.(*ssa.Extract)
		if !ok || ex.Index != 3 {
			return
		}
		if call, ok := ex.Tuple.(*ssa.Call); ok && strings.HasSuffix(calleeName(&call.Call), "CellBuffer).GetContent") {
			widthOf = ex
		}
	})
	if widthOf == nil {
		c.Undecided(rule, short+":returns-width", p.pos(fn.Pos()), "no width taken from GetContent")
		return
	}
	var isWidth func(v ssa.Value, d int) bool
	isWidth = func(v ssa.Value, d int) bool {
		if d > 6 {
			return false
		}
		v = derefCell(v)
		if v == widthOf {
			return true
		}
		switch x := v.(type) {
		case *ssa.Phi:
			nW := 0
			for _, e := range x.Edges {
				if e == ssa.Value(x) {
					continue
				}
				if k, ok := constInt(e); ok && k == 1 {
					continue // `if width < 1 { width = 1 }`
				}
				if !isWidth(e, d+1) {
					return false
				}
				nW++
			}
			return nW > 0
		case *ssa.UnOp:
			if x.Op == token.MUL {
				// a spilled local (captured by the deferred closure): every store into the cell
				if al, ok := x.X.(*ssa.Alloc); ok {
					n := 0
					good := true
					for _, r := range referrers(al) {
						if st, ok := r.(*ssa.Store); ok && st.Addr == ssa.Value(al) {
							if k, ok := constInt(st.Val); ok && k == 1 {
								continue
							}
							n++
							if !isWidth(st.Val, d+1) {
								good = false
							}
						}
					}
					return good && n > 0
				}
			}
		}
		return false
	}
	n := 0
	bad := ""
	for _, r := range returnsOf(fn) {
		if len(r.Results) != 1 {
			continue
		}
		n++
		if !isWidth(resultOf(r, 0), 0) {
			bad += fmt.Sprintf("return at %s yields %s; ", p.pos(r.Pos()), valName(resultOf(r, 0)))
		}
	}
	c.Check(bad == "" && n > 0, rule, short+":returns-width", p.pos(fn.Pos()), fmt.Sprintf("%d return(s), each the cell width reported by GetContent %s", n, bad))
}

// checkStyleCacheReads: the painter caches the style it believes is active on
// the terminal (curstyle) and forgets it by storing the marker styleInvalid.
// The marker differs from every real style only in the components its literal
// sets.  A component-wise read of the cache is therefore sound only for those
// components: for any other component the forgotten state is indistinguishable
// from a real value, and gating an emission on it skips a sequence the terminal
// needs (the terminal keeps its state between draws, the cache does not).
func checkStyleCacheReads(c *Ctx, p *Prog, rule string) {
	// fields set by the marker's literal
	marked := map[string]bool{}
	found := false
	for _, f := range p.pkg("").Syntax {
		ast.Inspect(f, func(n ast.Node) bool {
			vs, ok := n.(*ast.ValueSpec)
			if !ok {
				return true
			}
			for i, nm := range vs.Names {
				if nm.Name != "styleInvalid" || i >= len(vs.Values) {
					continue
				}
				if cl, ok := vs.Values[i].(*ast.CompositeLit); ok {
					found = true
					for _, e := range cl.Elts {
						if kv, ok := e.(*ast.KeyValueExpr); ok {
							if id, ok := kv.Key.(*ast.Ident); ok {
								marked[id.Name] = true
							}
						}
					}
				}
			}
			return true
		})
	}
	if !found {
		c.Undecided(rule, "styleInvalid", "-", "the forget-marker literal was not found")
		return
	}
	nReads, nWhole := 0, 0
	bad := ""
	for _, fn := range p.modFns {
		if fn.Pkg != p.Tcell {
			continue
		}
		eachInstr(fn, func(in ssa.Instruction) {
			switch x := in.(type) {
			case *ssa.FieldAddr:
				// &(&t.curstyle).F
				if ref, _, ok := fieldAddrRef(x.X); ok && ref.Owner == "tcell.tScreen" && ref.Name == "curstyle" {
					f, _, _ := fieldAddrRef(x)
					nReads++
					if !marked[f.Name] {
						bad += fmt.Sprintf("%s reads curstyle.%s at %s; ", fn.Name(), f.Name, p.pos(x.Pos()))
					}
				}
			case *ssa.Field:
				if ref, _, ok := loadedField(x.X); ok && ref.Owner == "tcell.tScreen" && ref.Name == "curstyle" {
					f, _, _ := fieldValRef(x)
					nReads++
					if !marked[f.Name] {
						bad += fmt.Sprintf("%s reads curstyle.%s at %s; ", fn.Name(), f.Name, p.pos(x.Pos()))
					}
				}
			case *ssa.UnOp:
				if x.Op == token.MUL {
					if ref, _, ok := fieldAddrRef(x.X); ok && ref.Owner == "tcell.tScreen" && ref.Name == "curstyle" {
						nWhole++
						for _, r := range referrers(x) {
							if bo, ok := r.(*ssa.BinOp); ok && (bo.Op == token.EQL || bo.Op == token.NEQ) {
								continue
							}
							if _, ok := r.(*ssa.DebugRef); ok {
								continue
							}
							bad += fmt.Sprintf("%s uses the cached style other than in a whole comparison at %s; ", fn.Name(), p.pos(x.Pos()))
						}
					}
				}
			}
		})
	}
	var ms []string
	for k := range marked {
		ms = append(ms, k)
	}
	c.Check(bad == "" && nWhole > 0, rule, "curstyle:read-whole-or-marked-component", "-",
		fmt.Sprintf("%d whole-style comparisons, %d component reads; the forget-marker sets %v %s", nWhole, nReads, ms, bad))
}

// checkRememberedModes: the modes an application enabled are remembered in
// fields of the screen so that Resume can re-apply them after Suspend.  The
// tear-down emits the "off" sequences through the same helpers the togglers
// use; if such a helper (or anything else reachable from Suspend/Resume/Fini)
// also stored the field, suspending would wipe what Resume needs.  So: no store
// to a remembered field in any function reachable, through static calls, from
// the lifecycle roots.
func checkRememberedModes(c *Ctx, p *Prog, rule, tname string, fields, roots []string) {
	owner := "tcell." + tname
	reach := map[*ssa.Function]string{}
	var visit func(fn *ssa.Function, via string)
	visit = func(fn *ssa.Function, via string) {
		if fn == nil || fn.Pkg != p.Tcell {
			return
		}
		if _, ok := reach[fn]; ok {
			return
		}
		reach[fn] = via
		for _, a := range fn.AnonFuncs {
			visit(a, via)
		}
		eachInstr(fn, func(in ssa.Instruction) {
			cc := callCommon(in)
			if cc == nil {
				return
			}
			if _, isGo := in.(*ssa.Go); isGo {
				return
			}
			if callee := staticCallee(cc); callee != nil {
				visit(callee, via)
			}
			if calleeName(cc) == "(*sync.Once).Do" && len(cc.Args) == 2 {
				visit(boundTarget(cc.Args[1]), via)
			}
		})
	}
	nRoots := 0
	for _, r := range roots {
		if fn := p.Fn("tcell:(*" + tname + ")." + r); fn != nil {
			nRoots++
			visit(fn, r)
		}
	}
	if nRoots == 0 {
		c.Undecided(rule, tname+":lifecycle-roots", "-", "none of the lifecycle functions was found")
		return
	}
	for _, f := range fields {
		writers := []string{}
		bad := ""
		for _, fn := range p.modFns {
			if fn.Pkg != p.Tcell {
				continue
			}
			for _, st := range storesTo(fn, owner, f) {
				writers = append(writers, fn.Name())
				if via, ok := reach[fn]; ok {
					bad += fmt.Sprintf("%s stores %s.%s at %s and is reachable from %s; ", fn.Name(), tname, f, p.pos(st.Pos()), via)
				}
			}
		}
		if len(writers) == 0 {
			c.Undecided(rule, tname+"."+f+":remembered", "-", "no store to the field found")
			continue
		}
		c.Check(bad == "", rule, tname+"."+f+":remembered", "-", fmt.Sprintf("stored by %v; none of them reachable from %v %s", writers, roots, bad))
	}
}

// localGuardDNF: the conditions under which control gets from block from to
// block to, as a set of conjunctions of atoms (one per acyclic path), with the
// atoms for which drop() is true left out.  Meant for small if-chains.
func localGuardDNF(from, to *ssa.BasicBlock, drop func(Atom) bool) (map[string]bool, bool) {
	out := map[string]bool{}
	n := 0
	var walk func(b *ssa.BasicBlock, conj []string, seen map[*ssa.BasicBlock]bool) bool
	walk = func(b *ssa.BasicBlock, conj []string, seen map[*ssa.BasicBlock]bool) bool {
		if n > 256 {
			return false
		}
		if b == to {
			n++
			cp := append([]string{}, conj...)
			sort.Strings(cp)
			// dedupe
			var dd []string
			for i, s := range cp {
				if i == 0 || s != cp[i-1] {
					dd = append(dd, s)
				}
			}
			out[strings.Join(dd, " && ")] = true
			return true
		}
		if seen[b] {
			return true
		}
		seen[b] = true
		defer delete(seen, b)
		for _, sc := range b.Succs {
			if !reaches(sc, to) {
				continue
			}
			c2 := conj
			if len(b.Instrs) > 0 {
				if iff, ok := b.Instrs[len(b.Instrs)-1].(*ssa.If); ok && b.Succs[0] != b.Succs[1] {
					if at, ok := condAtom(iff.Cond, b.Succs[0] == sc); ok {
						at = at.canon()
						if !drop(at) {
							c2 = append(append([]string{}, conj...), at.String())
						}
					}
				}
			}
			if !walk(sc, c2, seen) {
				return false
			}
		}
		return true
	}
	ok := walk(from, nil, map[*ssa.BasicBlock]bool{})
	return out, ok
}

func reaches(a, b *ssa.BasicBlock) bool {
	if a == b {
		return true
	}
	return blocksReachableFrom(a)[b]
}

// checkPairedAssignment: two prepared strings that switch a terminal mode on
// and off must be available together: the literal fallback of the "off" string
// is assigned under the same conditions as the fallback of the "on" string
// (conditions on the description's own value of either string left aside).
func checkPairedAssignment(c *Ctx, p *Prog, fn *ssa.Function, rule, owner, on, off string) {
	key := fn.Name() + ":" + on + "/" + off + ":assigned-together"
	dnfOf := func(field string) (map[string]bool, string) {
		sts := storesTo(fn, owner, field)
		if len(sts) == 0 {
			return nil, "no store to " + field
		}
		var fb *ssa.Store
		var own []string
		for _, st := range sts {
			if _, ok := constString(st.Val); ok {
				fb = st
			} else if ref, _, ok := loadedField(st.Val); ok {
				own = append(own, ref.Name)
			}
		}
		if fb == nil {
			return map[string]bool{"(no fallback)": true}, ""
		}
		// anchor: nearest common dominator of all stores to the field
		anchor := fb.Block()
		for {
			all := true
			for _, st := range sts {
				if !anchor.Dominates(st.Block()) {
					all = false
				}
			}
			if all || anchor.Idom() == nil {
				break
			}
			anchor = anchor.Idom()
		}
		drop := func(a Atom) bool {
			for _, o := range own {
				if strings.HasSuffix(a.L, "."+o) || strings.HasSuffix(a.R, "."+o) {
					return true
				}
			}
			return false
		}
		d, ok := localGuardDNF(anchor, fb.Block(), drop)
		if !ok {
			return nil, "too many paths"
		}
		return d, ""
	}
	a, why := dnfOf(on)
	if a == nil {
		c.Undecided(rule, key, p.pos(fn.Pos()), why)
		return
	}
	b, why := dnfOf(off)
	if b == nil {
		c.Undecided(rule, key, p.pos(fn.Pos()), why)
		return
	}
	same := len(a) == len(b)
	for k := range a {
		if !b[k] {
			same = false
		}
	}
	c.Check(same, rule, key, p.pos(fn.Pos()), fmt.Sprintf("fallback for %s under %v; fallback for %s under %v", on, sortedKeys(a), off, sortedKeys(b)))
}

// checkResolvedStyle: a cell whose style is StyleDefault is painted in the
// screen's style.  After that fallback every component handed to the backend
// must come from the resolved value; a use of the style as GetContent returned
// it (other than the test against StyleDefault and the merge itself) paints a
// default-styled cell with the wrong component.
func checkResolvedStyle(c *Ctx, p *Prog, fn *ssa.Function, rule string) {
	short := fn.RelString(fn.Pkg.Pkg)
	var raw ssa.Value
	eachInstr(fn, func(in ssa.Instruction) {
		if ex, ok := in.(*ssa.Extract); ok && ex.Index == 2 {
			if call, ok := ex.Tuple.(*ssa.Call); ok && strings.HasSuffix(calleeName(&call.Call), "CellBuffer).GetContent") {
				raw = ex
			}
		}
	})
	if raw == nil {
		c.Undecided(rule, short+":resolved-style", p.pos(fn.Pos()), "style result of GetContent not found")
		return
	}
	bad := ""
	nUses := 0
	var visit func(v ssa.Value, viaCell bool)
	seen := map[ssa.Value]bool{}
	visit = func(v ssa.Value, viaCell bool) {
		if seen[v] {
			return
		}
		seen[v] = true
		for _, r := range referrers(v) {
			switch x := r.(type) {
			case *ssa.DebugRef:
			case *ssa.BinOp:
				if x.Op == token.EQL || x.Op == token.NEQ {
					continue // the test against StyleDefault
				}
				bad += "used in " + x.String() + "; "
			case *ssa.Phi:
				continue // the merge with the screen style: its users use the resolved value
			case *ssa.Store:
				// spilled into a local cell (captured by a closure / address taken): follow the cell's
				// loads only up to the point where the fallback stores into the same cell
				if x.Val == v {
					if al, ok := x.Addr.(*ssa.Alloc); ok {
						fallback := false
						for _, r2 := range referrers(al) {
							if st2, ok := r2.(*ssa.Store); ok && st2 != x && st2.Addr == ssa.Value(al) {
								fallback = true
							}
						}
						if fallback {
							continue // the cell is the resolved variable
						}
					}
					nUses++
					bad += fmt.Sprintf("stored unresolved at %s; ", p.pos(x.Pos()))
				}
			default:
				nUses++
				if in, ok := r.(ssa.Instruction); ok {
					bad += fmt.Sprintf("the style as returned by GetContent is used at %s (%T) without the StyleDefault fallback; ", p.pos(in.Pos()), r)
				}
			}
		}
	}
	visit(raw, false)
	c.Check(bad == "", rule, short+":resolved-style", p.pos(fn.Pos()), "every component painted comes from the style after the StyleDefault fallback "+bad)
}

// checkCleanMarkCallers: a cell is marked clean when it has been painted, and
// only then; the only callers of SetDirty(x, y, false) are the painters.
func checkCleanMarkCallers(c *Ctx, p *Prog, rule string) {
	callers := map[string]bool{}
	for _, fn := range p.modFns {
		if fn.Pkg != p.Tcell {
			continue
		}
		for _, call := range callsIn(fn, func(n string, cc *ssa.CallCommon) bool { return strings.HasSuffix(n, "CellBuffer).SetDirty") }) {
			cc := callCommon(call)
			if len(cc.Args) == 4 {
				if v, ok := constBool(cc.Args[3]); ok && v {
					continue
				}
				callers[topFunc(fn).RelString(p.Tcell.Pkg)] = true
			}
		}
	}
	bad := ""
	for _, k := range sortedKeys(callers) {
		if !strings.HasSuffix(k, ").drawCell") {
			bad += k + " marks cells clean; "
		}
	}
	c.Check(bad == "" && len(callers) > 0, rule, "SetDirty(false):callers", "-", fmt.Sprintf("cells are marked clean only by the painters %v %s", sortedKeys(callers), bad))
}

// checkUnderlineViews: Style carries the underline twice - as the (deprecated)
// attribute bit and as ulStyle - and the painters of all backends look at
// ulStyle only.  A setter that changes one view without the other produces a
// style whose underline attribute is set but never drawn.
func checkUnderlineViews(c *Ctx, p *Prog, rule string) {
	n := 0
	for _, fn := range p.modFns {
		if fn.Pkg != p.Tcell || fn.Parent() != nil || recvTypeName(fn) != "tcell.Style" {
			continue
		}
		wholeAttrs := false
		for _, st := range storesTo(fn, "tcell.Style", "attrs") {
			if _, isParam := st.Val.(*ssa.Parameter); isParam {
				wholeAttrs = true
			}
		}
		setsUl := len(storesTo(fn, "tcell.Style", "ulStyle")) > 0
		setsBit := len(storesTo(fn, "tcell.Style", "attrs")) > 0
		if wholeAttrs {
			n++
			c.Check(setsUl, rule, "Style."+fn.Name()+":attrs-and-ulStyle", p.pos(fn.Pos()), "replaces the attribute mask as a whole and brings ulStyle in line with its underline bit")
		} else if setsUl {
			n++
			c.Check(setsBit, rule, "Style."+fn.Name()+":ulStyle-and-attrs", p.pos(fn.Pos()), "sets ulStyle and the underline bit together")
		}
	}
	if n == 0 {
		c.Undecided(rule, "Style:underline-setters", "-", "no Style method writes attrs or ulStyle")
	}
}

// checkStyleCacheWrites: the cache of "what style the terminal is in" may only ever hold something the
// terminal was completely told.  Its writers are therefore exactly two: the forget-marker (styleInvalid)
// and, in drawCell, the style whose whole emission (attributes off, colours, attributes, underline,
// hyperlink) was just sent — the very value compared with the cache on the way in.  Any other store
// (for example "the screen was just cleared in the default style, so remember that") claims more than
// was sent: attributes, underline and hyperlink of that style were not.
func checkStyleCacheWrites(c *Ctx, p *Prog, rule string) {
	n := 0
	for _, fn := range p.modFns {
		if fn.Pkg != p.Tcell {
			continue
		}
		for _, st := range storesTo(fn, "tcell.tScreen", "curstyle") {
			n++
			key := fmt.Sprintf("%s:curstyle-store", fn.Name())
			v := derefCell(st.Val)
			if u, ok := v.(*ssa.UnOp); ok && u.Op == token.MUL {
				if g, isG := u.X.(*ssa.Global); isG && g.Name() == "styleInvalid" {
					c.OK(rule, key+"=styleInvalid", p.pos(st.Pos()), "the forget-marker")
					continue
				}
			}
			comparedWithCache := func(blk *ssa.BasicBlock, v ssa.Value) bool {
				for _, g := range rawGuardsAt(blk) {
					bo, isBO := g.Cond.(*ssa.BinOp)
					if !isBO || !(bo.Op == token.NEQ && g.Positive || bo.Op == token.EQL && !g.Positive) {
						continue
					}
					for _, pair := range [][2]ssa.Value{{bo.X, bo.Y}, {bo.Y, bo.X}} {
						if sameValue(derefCell(pair[0]), v) {
							if u, ok := derefCell(pair[1]).(*ssa.UnOp); ok {
								if ref, _, okR := fieldAddrRef(u.X); okR && ref.Name == "curstyle" {
									return true
								}
							}
						}
					}
				}
				return false
			}
			if fn.Name() != "drawCell" {
				// a helper of the painter that sends the whole style (`t.sendStyle(style)`): used by
				// drawCell only, storing its own parameter, and called behind `style != t.curstyle` with
				// the compared style as the argument
				okHelper := false
				if prm, isP := v.(*ssa.Parameter); isP && calledOnlyFrom(p, topFunc(fn), map[string]bool{"drawCell": true}, 0) {
					if dc := p.Fn("tcell:(*tScreen).drawCell"); dc != nil {
						idx := -1
						for i, q := range fn.Params {
							if q == prm {
								idx = i
							}
						}
						nSites, all := 0, true
						for _, f := range withClosures(dc) {
							eachInstr(f, func(in ssa.Instruction) {
								cc := callCommon(in)
								if cc == nil || cc.StaticCallee() != fn || idx < 0 || idx >= len(cc.Args) {
									return
								}
								nSites++
								if !comparedWithCache(in.Block(), derefCell(cc.Args[idx])) {
									all = false
								}
							})
						}
						okHelper = nSites > 0 && all
					}
				}
				if okHelper {
					c.OK(rule, key+"=emitted-style", p.pos(st.Pos()), "stored by the painter's style helper, called behind `style != t.curstyle` with the style just emitted")
					continue
				}
				c.Fail(rule, key, p.pos(st.Pos()), "the style cache is set to "+valName(v)+" outside the painter's emission: the terminal was not told all of that style")
				continue
			}
			// in drawCell: under the `style != t.curstyle` edge, and the stored value is the compared one
			okGuard := comparedWithCache(st.Block(), v)
			for _, g := range rawGuardsAt(st.Block())[:0] {
				bo, isBO := g.Cond.(*ssa.BinOp)
				if !isBO || !(bo.Op == token.NEQ && g.Positive || bo.Op == token.EQL && !g.Positive) {
					continue
				}
				for _, pair := range [][2]ssa.Value{{bo.X, bo.Y}, {bo.Y, bo.X}} {
					if sameValue(derefCell(pair[0]), v) {
						if u, ok := derefCell(pair[1]).(*ssa.UnOp); ok {
							if ref, _, okR := fieldAddrRef(u.X); okR && ref.Name == "curstyle" {
								okGuard = true
							}
						}
					}
				}
			}
			c.Check(okGuard, rule, key+"=emitted-style", p.pos(st.Pos()), "stored behind `style != t.curstyle`, the value being the style just emitted")
		}
	}
	if n < 2 {
		c.Undecided(rule, "curstyle-stores", "-", fmt.Sprintf("only %d stores to the style cache found", n))
	}
}

// staticReachFrom: module functions reachable from root through static calls, anonymous functions and
// sync.Once.Do targets (goroutines started with `go` are not followed).
func staticReachFrom(p *Prog, root *ssa.Function) map[*ssa.Function]bool {
	reach := map[*ssa.Function]bool{}
	var visit func(fn *ssa.Function)
	visit = func(fn *ssa.Function) {
		if fn == nil || fn.Pkg != p.Tcell || reach[fn] {
			return
		}
		reach[fn] = true
		for _, a := range fn.AnonFuncs {
			visit(a)
		}
		eachInstr(fn, func(in ssa.Instruction) {
			cc := callCommon(in)
			if cc == nil {
				return
			}
			if _, isGo := in.(*ssa.Go); isGo {
				return
			}
			if callee := staticCallee(cc); callee != nil {
				visit(callee)
			}
			if calleeName(cc) == "(*sync.Once).Do" && len(cc.Args) == 2 {
				visit(boundTarget(cc.Args[1]))
			}
		})
	}
	visit(root)
	return reach
}

// checkStopQIsQuit: StopQ() is what PollEvent, PostEventWait and ChannelEvents wait on besides the
// queue; its contract is "closed by Fini, stays open across Suspend".  The field it returns must be one
// that nothing reachable from Suspend closes and that Fini's path does close.
func checkStopQIsQuit(c *Ctx, p *Prog, rule, tname string) {
	sq := p.Fn("tcell:(*" + tname + ").StopQ")
	if sq == nil {
		c.Undecided(rule, tname+".StopQ", "-", "not found")
		return
	}
	var field string
	okShape := true
	for _, r := range returnsOf(sq) {
		if len(r.Results) != 1 {
			okShape = false
			continue
		}
		v := derefCell(resultOf(r, 0))
		for {
			if ct, ok := v.(*ssa.ChangeType); ok {
				v = derefCell(ct.X)
				continue
			}
			break
		}
		ref, _, ok := loadedField(v)
		if !ok || ref.Owner != "tcell."+tname || (field != "" && field != ref.Name) {
			okShape = false
			continue
		}
		field = ref.Name
	}
	if !okShape || field == "" {
		c.Fail(rule, tname+".StopQ:returns-quit-channel", p.pos(sq.Pos()), "does not simply return one channel field of the screen")
		return
	}
	closers := map[*ssa.Function]bool{}
	for _, fn := range p.modFns {
		if fn.Pkg != p.Tcell {
			continue
		}
		eachInstr(fn, func(in ssa.Instruction) {
			cc := callCommon(in)
			if cc == nil {
				return
			}
			if b, ok := cc.Value.(*ssa.Builtin); ok && b.Name() == "close" && len(cc.Args) == 1 {
				if ref, _, ok := loadedField(cc.Args[0]); ok && ref.Owner == "tcell."+tname && ref.Name == field {
					closers[fn] = true
				}
			}
		})
	}
	susp := p.Fn("tcell:(*" + tname + ").Suspend")
	fini := p.Fn("tcell:(*" + tname + ").Fini")
	bad := ""
	if susp != nil {
		for fn := range staticReachFrom(p, susp) {
			if closers[fn] {
				bad += "the channel StopQ hands out (" + field + ") is closed by " + fn.Name() + ", which Suspend reaches: pollers and ChannelEvents would take a suspension for the end; "
			}
		}
	}
	closedByFini := false
	if fini != nil {
		for fn := range staticReachFrom(p, fini) {
			if closers[fn] {
				closedByFini = true
			}
		}
	}
	if !closedByFini {
		bad += "nothing Fini reaches closes " + field + "; "
	}
	c.Check(bad == "", rule, tname+".StopQ:returns-quit-channel", p.pos(sq.Pos()), "returns "+tname+"."+field+", closed on Fini's path only "+bad)
}

// checkHideCursor: every draw ends by re-evaluating the *requested* cursor position, so hiding the
// cursor has to move the request off-screen: HideCursor is ShowCursor with two negative constants, or
// stores negative constants to both requested coordinates.  Clearing a visibility flag alone is undone
// by the next Show.
func checkHideCursor(c *Ctx, p *Prog, rule, tname string) {
	fn := p.Fn("tcell:(*" + tname + ").HideCursor")
	if fn == nil {
		c.Undecided(rule, tname+".HideCursor", "-", "not found")
		return
	}
	ok, detail := false, "neither ShowCursor(-1,-1) nor negative stores to the requested position"
	for _, call := range callsIn(fn, func(n string, _ *ssa.CallCommon) bool { return strings.HasSuffix(n, tname+").ShowCursor") }) {
		cc := callCommon(call)
		if len(cc.Args) == 3 {
			x, okx := constInt(cc.Args[1])
			y, oky := constInt(cc.Args[2])
			if okx && oky && x < 0 && y < 0 {
				ok, detail = true, fmt.Sprintf("ShowCursor(%d, %d)", x, y)
			}
		}
	}
	neg := map[string]bool{}
	for _, f := range []string{"cursorx", "cursory"} {
		for _, st := range storesTo(fn, "tcell."+tname, f) {
			if k, isK := constInt(st.Val); isK && k < 0 {
				neg[f] = true
			}
		}
	}
	if neg["cursorx"] && neg["cursory"] {
		ok, detail = true, "stores negative constants to cursorx and cursory"
	}
	c.Check(ok, rule, tname+".HideCursor:moves-request-off-screen", p.pos(fn.Pos()), detail)
}

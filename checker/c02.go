package main

import (
	"fmt"
	"go/token"
	"go/types"
	"strconv"
	"strings"

	"golang.org/x/tools/go/ssa"
)

func init() {
	register("C02", checkC02, "Equality of event sequences over all partitions of all byte strings is not statically decidable. Decided, on every path of the six input parsers (found by signature) and of the collect loop that calls them: parsers are all-or-nothing (no consumption, event append or state change on a path that answers 'partial' or 'no'); a 'complete' answer always consumed something; every iteration of the collect loop makes progress (a parser completed or a byte was read) — no stall; with the timeout expired the only way out of the loop is an empty buffer; what a parser matches and consumes is a function of the matched prefix only (no slice bound or payload derived from the length of the whole input buffer) and no constant prefix is skipped unchecked; the parser's index sites are guarded (no panic); the loop waits for more input only if some parser reported a partial match, and every parser call contributes to that count. Mutual consistency of the six parser languages and decoder behaviour (C11) are not decided.")
}

type parserInfo struct {
	fn      *ssa.Function
	bufPrm  *ssa.Parameter
	evsPrm  *ssa.Parameter
	effects []ssa.Instruction
	consume []ssa.Instruction
	// a consumption made through a helper that removes exactly its count argument from the front of
	// the buffer (`discardBytes(buf, n)`): the call site, with the count as seen by the parser
	helperCount map[ssa.Instruction]ssa.Value
}

// consumeHelper: h removes exactly n bytes (its integer parameter) from the buffer that is its
// *bytes.Buffer parameter and does nothing else — `buf.Next(n)`, or a loop counting n down to zero
// around one ReadByte.  Returns the positions of the two parameters.
func consumeHelper(h *ssa.Function) (int, int, bool) {
	if h == nil || len(h.Blocks) == 0 {
		return 0, 0, false
	}
	bufIdx, nIdx := -1, -1
	for i, pa := range h.Params {
		if typeName(pa.Type()) == "*bytes.Buffer" {
			bufIdx = i
		}
		if bt, ok := pa.Type().Underlying().(*types.Basic); ok && bt.Kind() == types.Int {
			nIdx = i
		}
	}
	if bufIdx < 0 || nIdx < 0 {
		return 0, 0, false
	}
	ok, reads := true, 0
	eachInstr(h, func(in ssa.Instruction) {
		switch x := in.(type) {
		case *ssa.Store, *ssa.MapUpdate, *ssa.Send, *ssa.Go, *ssa.Defer, *ssa.Panic:
			ok = false
		case *ssa.Call:
			name := calleeName(&x.Call)
			switch {
			case name == "(*bytes.Buffer).Next" && x.Call.Args[0] == ssa.Value(h.Params[bufIdx]) && x.Call.Args[1] == ssa.Value(h.Params[nIdx]):
				// the whole count at once; must not sit in a loop
				for _, body := range loopsOf(h) {
					if body[x.Block()] {
						ok = false
					}
				}
				reads++
			case name == "(*bytes.Buffer).ReadByte" && x.Call.Args[0] == ssa.Value(h.Params[bufIdx]):
				// one byte per round of a loop whose counter starts at n, goes down by one, and runs while > 0
				counted := false
				for hd, body := range loopsOf(h) {
					if !body[x.Block()] {
						continue
					}
					for _, hin := range hd.Instrs {
						phi, isPhi := hin.(*ssa.Phi)
						if !isPhi || len(phi.Edges) != 2 {
							continue
						}
						fromN, dec := false, false
						for _, e := range phi.Edges {
							if e == ssa.Value(h.Params[nIdx]) {
								fromN = true
							}
							if bo, isBO := e.(*ssa.BinOp); isBO && bo.Op == token.SUB && bo.X == ssa.Value(phi) {
								if k, isK := constInt(bo.Y); isK && k == 1 {
									dec = true
								}
							}
						}
						if !fromN || !dec {
							continue
						}
						if iff, isIf := hd.Instrs[len(hd.Instrs)-1].(*ssa.If); isIf && body[hd.Succs[0]] {
							if cmp, isCmp := iff.Cond.(*ssa.BinOp); isCmp && cmp.Op == token.GTR && cmp.X == ssa.Value(phi) {
								if k, isK := constInt(cmp.Y); isK && k == 0 {
									counted = true
								}
							}
						}
					}
				}
				if !counted {
					ok = false
				}
				reads++
			default:
				if _, isB := x.Call.Value.(*ssa.Builtin); !isB {
					ok = false
				}
			}
		}
	})
	return bufIdx, nIdx, ok && reads == 1
}

func inputParsers(p *Prog) []*parserInfo {
	var out []*parserInfo
	for _, fn := range p.modFns {
		if fn.Pkg != p.Tcell || fn.Parent() != nil || !isParserSig(fn) || recvTypeName(fn) != "tcell.tScreen" {
			continue
		}
		pi := &parserInfo{fn: fn, bufPrm: fn.Params[1], evsPrm: fn.Params[2], helperCount: map[ssa.Instruction]ssa.Value{}}
		eachInstr(fn, func(in ssa.Instruction) {
			if cc := callCommon(in); cc != nil {
				n := calleeName(cc)
				if h := cc.StaticCallee(); h != nil && h.Pkg == p.Tcell && len(h.Blocks) > 0 {
					if bi, ni, isC := consumeHelper(h); isC && bi < len(cc.Args) && ni < len(cc.Args) && cc.Args[bi] == ssa.Value(pi.bufPrm) {
						pi.effects = append(pi.effects, in)
						pi.consume = append(pi.consume, in)
						pi.helperCount[in] = cc.Args[ni]
					} else if helperHasEffect(h, 2) {
						// a helper that stores into the screen (or consumes) is a side effect of the parser
						pi.effects = append(pi.effects, in)
					}
				}
				if strings.HasPrefix(n, "(*bytes.Buffer).") && len(cc.Args) > 0 && cc.Args[0] == ssa.Value(pi.bufPrm) {
					m := strings.TrimPrefix(n, "(*bytes.Buffer).")
					switch m {
					case "ReadByte", "ReadBytes", "Next", "Read", "ReadRune", "ReadString", "Truncate", "Reset", "Write", "WriteByte", "WriteString", "UnreadByte", "Grow":
						pi.effects = append(pi.effects, in)
						if m != "Write" && m != "WriteByte" && m != "WriteString" && m != "UnreadByte" && m != "Grow" {
							pi.consume = append(pi.consume, in)
						}
					}
				}
			}
			if st, ok := in.(*ssa.Store); ok {
				if st.Addr == ssa.Value(pi.evsPrm) {
					pi.effects = append(pi.effects, in)
				}
				if ref, _, ok := fieldAddrRef(st.Addr); ok && ref.Owner == "tcell.tScreen" {
					pi.effects = append(pi.effects, in)
				}
			}
		})
		out = append(out, pi)
	}
	return out
}

func checkC02(c *Ctx) {
	c.Rule("C02-R1", "parsers are all-or-nothing: no side effect (consume, append event, store to screen state) can be followed by a return whose 'complete' result is false")
	c.Rule("C02-R2", "a 'complete' answer is only reachable through a consumption site")
	c.Rule("C02-R3", "every cycle of the collect loop passes the complete-edge of a parser or a direct ReadByte (no stall)")
	c.Rule("C02-R4", "with expire set the collect loop only exits on an empty buffer (the wait-for-more exit is behind the false edge of expire)")
	c.Rule("C02-R5", "no slice bound or payload in a parser derives from len() of the input buffer")
	c.Rule("C02-R6", "a reslice past a constant prefix is dominated by a successful prefix comparison")
	c.Rule("C02-R7", "index sites of the parsers and the collect loop are guarded (range index, len guard here or at every caller)")
	c.Rule("C02-R8", "the wait-for-more gate counts one increment per parser call, each under that parser's 'partial' result")
	c.Rule("C02-R14", "a recogniser that dispatches on the current byte rejects every byte it has no case for (a skipped byte is swallowed by the sequence recognised around it, and ESC followed by anything keeps the recogniser 'partial' until the timer expires)")
	c.Expect("C02-R14", 1)
	c.Rule("C02-R9", "a parser consumes exactly the bytes it matched: fixed read counts agree with the scan index at the match, countdown loops start at the scan index, prefix loops run to len(P) under HasPrefix(input, P), decoder loops run to nSrc, ReadBytes(d) only where the current byte is d")
	c.Rule("C02-R10", "an input chunk handed to the parser goroutine over a channel has a backing array allocated for that chunk alone (every cycle through the send passes through the allocation)")
	c.Rule("C02-R13", "the escape timeout only expires when 50 ms really passed without input: the timer is re-armed after a Stop whose 'already fired' answer drains the tick")
	c.Expect("C02-R13", 4)
	c.Rule("C02-R12", "no key sequence of any terminal is a proper prefix of another (the matcher ranges over a map and takes the first hit; with a prefix pair the result depends on where the read ended)")
	c.Expect("C02-R12", 49)
	c.Rule("C02-R11", "a parser that looks at several candidates only ever raises its 'partial' answer (constants, or a test made where the flag is still false): the answer cannot depend on the order of the candidates")
	c.Expect("C02-R11", 1)
	c.Expect("C02-R9", 8)
	c.Expect("C02-R10", 1)
	c.Expect("C02-R1", 6)
	c.Expect("C02-R2", 6)
	c.Expect("C02-R3", 1)
	c.Expect("C02-R4", 2)
	c.Expect("C02-R5", 6)
	c.Expect("C02-R7", 8)
	c.Expect("C02-R8", 6)
	p := c.P("linux")
	if p == nil || p.Tcell == nil {
		c.Undecided("C02-R1", "package tcell", "-", "not loaded")
		return
	}
	c.Rule("C02-R15", "which parsers the collect loop tries depends on the terminal's description and on the scan (nothing pending / expiry) only, never on the modes switched on at the moment; the focus parser, which alone holds back a lone ESC on a terminal without ESC-introduced keys, is tried on every terminal")
	c.Expect("C02-R15", 6)
	checkCollectGates(c, p, "C02-R15", nil)
	c.Rule("C02-R18", "never swallows bytes: what a read returned is queued for the decoder whatever error came with it (the send of chunk[:n] is not decided by the read's error; = C05-R11)")
	c.Expect("C02-R18", 1)
	checkReadBytesQueued(c, p, "C02-R18")
	c.Rule("C02-R19", "the same events in the same order: every send of a decoded event waits for room itself (blocking select, shutdown alternatives only); none is tried without blocking or handed to a goroutine, whose sends race the next scan's (= C05-R1)")
	c.Expect("C02-R19", 1)
	c.asRule("C05-R1", "C02-R19", func() { c05Sends(c, p) })
	c.Rule("C02-R20", "with no escape timeout expiring in between: the collect loop gives up waiting only when its caller says the wait is over; the flag it tests is its parameter, never reassigned inside (by the amount buffered, by the clock)")
	c.Expect("C02-R20", 1)
	checkExpiryIsTheCallers(c, p, "C02-R20")
	c.Rule("C02-R21", "any partition yields the same events: what the main loop appends to the decode buffer is the chunk as received from the reader (a per-chunk rewrite sees characters the read boundary cut in two)")
	c.Expect("C02-R21", 1)
	checkChunkBufferedAsRead(c, p, "C02-R21")
	c.Rule("C02-R22", "a recognised sequence becomes its event whatever was decoded before it in the same scan: input a parser removes with the answer 'complete' was appended to the event list (two identical reports in one read are two events, as they are in two reads; = C05-R12)")
	c.Expect("C02-R22", 6)
	checkConsumedDelivers(c, p, "C02-R22", nil)
	c.Rule("C02-R23", "with no escape timeout expiring in between: the escape timer is armed only after the scan of what is buffered has returned (armed before, it fires while the scan waits for room in the event queue and then competes with the chunk that completes the sequence)")
	c.Expect("C02-R23", 1)
	checkTimerArmedAfterScan(c, p, "C02-R23")
	c.Rule("C02-R24", "decoding is independent of how the bytes are split over reads, also over more than two: every re-arming of the escape timer is for the constant wait (= C03-R14)")
	c.Expect("C02-R24", 1)
	checkEscapeWaitPerChunk(c, p, "C02-R24")
	c.Rule("C02-R26", "the start of a multi-byte character is waited for whatever follows it in the buffer: parseRune answers 'not a character' only before it asks the decoder (= C11-R27)")
	c.Expect("C02-R26", 1)
	checkNotMineOnlyBeforeTheDecoder(c, p, "C02-R26")
	c.Rule("C02-R25", "a character split over two reads is one character in every charset: no unicode/utf8 function judges the undecoded input (utf8.FullRune says 'complete' for a lead byte of a legacy double-byte charset; = C11-R6)")
	c.Expect("C02-R25", 1)
	if pr := p.Fn("tcell:(*tScreen).parseRune"); pr != nil {
		checkRawInputNotUTF8(c, p, pr, "C02-R25")
	}
	c.Rule("C02-R17", "a pending Alt prefix outlives the scan that found it: the flag is a field of the screen, cleared only where it is applied to a key (a scan that ends waiting for more input must not forget it: ESC ESC | [ A is Alt+Up however it is chunked; = C03-R6)")
	c.Expect("C02-R17", 3)
	c.asRule("C03-R6", "C02-R17", func() { c03AltPrefix(c, p) })
	c.Rule("C02-R16", "the rune parser offers the decoder growing prefixes of the buffer, so that what it consumes is exactly the character it reports (one pass over everything buffered decodes as many characters as fit the output, reports the first and drops the rest: which keys arrive then depends on where the reads ended)")
	c.Expect("C02-R16", 1)
	if pr := p.Fn("tcell:(*tScreen).parseRune"); pr != nil {
		c.asRule("C11-R1", "C02-R16", func() { checkPrefixLoop(c, p, pr, "C11-R1") })
	} else {
		c.Undecided("C02-R16", "parseRune", "-", "not found")
	}
	parsers := inputParsers(p)
	if len(parsers) < 6 {
		c.Undecided("C02-R1", "parsers", "-", fmt.Sprintf("found %d input parsers by signature, expected 6", len(parsers)))
	}
	for _, pi := range parsers {
		name := pi.fn.Name()
		// R1
		bad := ""
		nret := 0
		for _, r := range returnsOf(pi.fn) {
			if len(r.Results) != 2 {
				continue
			}
			nret++
			comp, isC := constBool(r.Results[1])
			if isC && comp {
				continue
			}
			for _, e := range pi.effects {
				if reachableAfter(e, r) {
					what := "non-constant"
					if isC {
						what = "false"
					}
					bad = fmt.Sprintf("side effect at %s can be followed by a return at %s whose complete result is %s", p.pos(e.Pos()), p.pos(r.Pos()), what)
				}
			}
		}
		c.Check(bad == "" && nret > 0, "C02-R1", name+":all-or-nothing", p.pos(pi.fn.Pos()), fmt.Sprintf("%d side-effect sites, %d returns %s", len(pi.effects), nret, bad))
		// R2
		stop := map[ssa.Instruction]bool{}
		for _, s := range pi.consume {
			stop[s] = true
		}
		// a loop whose body consumes counts as a consumption site (stated weakening:
		// it is not proven that the loop runs at least once)
		for h, body := range loopsOf(pi.fn) {
			for _, s := range pi.consume {
				if body[s.Block()] && len(h.Instrs) > 0 {
					stop[h.Instrs[0]] = true
				}
			}
		}
		bad = ""
		ntrue := 0
		for _, r := range returnsOf(pi.fn) {
			if len(r.Results) != 2 {
				continue
			}
			if comp, isC := constBool(r.Results[1]); isC && !comp {
				continue
			}
			ntrue++
			if existsPathFromEntryAvoiding(pi.fn, r, stop) {
				bad = "a return reporting 'complete' at " + p.pos(r.Pos()) + " is reachable without consuming input"
			}
		}
		c.Check(bad == "" && ntrue > 0, "C02-R2", name+":complete-consumes", p.pos(pi.fn.Pos()), fmt.Sprintf("%d consumption sites, %d complete-returns %s", len(pi.consume), ntrue, bad))
		c02Prefix(c, p, pi)
		c02Index(c, p, pi.fn, parsers)
		c02Consumption(c, p, pi)
		c02PartialAccumulates(c, p, pi, "C02-R11")
	}
	checkChunkOwnership(c, p, "C02-R10")
	checkTimerDiscipline(c, p, "C02-R13")
	checkStrictDispatch(c, p, "C02-R14")
	c.asRule("C14-R3", "C02-R12", func() { c14Prefix(c, p, buildDB(c, p)) })
	recogniserConflicts(c, p, buildDB(c, p), "C02-R12")
	collect := collectLoopFn(p)
	if collect == nil {
		c.Undecided("C02-R3", "collect loop", "-", "no function calling three or more parsers found")
		return
	}
	c02Collect(c, p, collect, parsers)
	c02Index(c, p, collect, parsers)
}

// derivesFromInput: v is buf.Bytes() of the parser's buffer parameter or a reslice of it.
func derivesFromInput(v ssa.Value, buf *ssa.Parameter, d int) bool {
	if d > 8 {
		return false
	}
	switch x := v.(type) {
	case *ssa.Call:
		return calleeName(&x.Call) == "(*bytes.Buffer).Bytes" && len(x.Call.Args) > 0 && x.Call.Args[0] == ssa.Value(buf)
	case *ssa.Slice:
		return derivesFromInput(x.X, buf, d+1)
	case *ssa.Phi:
		for _, e := range x.Edges {
			if e != ssa.Value(x) && derivesFromInput(e, buf, d+1) {
				return true
			}
		}
	}
	return false
}

// usesLenOfInput: does integer value v depend (arithmetically) on len(input)?
func usesLenOfInput(v ssa.Value, buf *ssa.Parameter, d int) bool {
	if v == nil || d > 8 {
		return false
	}
	switch x := v.(type) {
	case *ssa.Call:
		if b, ok := x.Call.Value.(*ssa.Builtin); ok && b.Name() == "len" {
			return derivesFromInput(x.Call.Args[0], buf, 0)
		}
	case *ssa.BinOp:
		return usesLenOfInput(x.X, buf, d+1) || usesLenOfInput(x.Y, buf, d+1)
	case *ssa.Convert:
		return usesLenOfInput(x.X, buf, d+1)
	case *ssa.Phi:
		for _, e := range x.Edges {
			if e != ssa.Value(x) && usesLenOfInput(e, buf, d+1) {
				return true
			}
		}
	}
	return false
}

func c02Prefix(c *Ctx, p *Prog, pi *parserInfo) {
	name := pi.fn.Name()
	n, nskip := 0, 0
	bad5 := false
	eachInstr(pi.fn, func(in ssa.Instruction) {
		sl, ok := in.(*ssa.Slice)
		if !ok || !derivesFromInput(sl.X, pi.bufPrm, 0) {
			return
		}
		n++
		for _, bnd := range []ssa.Value{sl.Low, sl.High} {
			if usesLenOfInput(bnd, pi.bufPrm, 0) {
				if isMinOfLenAndConst(bnd, pi.bufPrm) {
					continue // min(len(input), K): at most K bytes, however much follows
				}
				bad5 = true
				c.Fail("C02-R5", fmt.Sprintf("%s:slice[%s]", name, regSuffix.ReplaceAllString(valName(bnd), "")), p.pos(in.Pos()), "slice bound "+valName(bnd)+" is computed from the length of the whole input buffer: bytes after the sequence change what is decoded")
			}
		}
		// R6: b[len(P):] with P not input-derived
		if sl.Low != nil && sl.High == nil {
			if call, ok := sl.Low.(*ssa.Call); ok {
				if b, ok := call.Call.Value.(*ssa.Builtin); ok && b.Name() == "len" && !derivesFromInput(call.Call.Args[0], pi.bufPrm, 0) {
					nskip++
					prefix := call.Call.Args[0]
					okG := false
					for _, g := range rawGuardsAt(in.Block()) {
						if gc, ok := g.Cond.(*ssa.Call); ok && g.Positive && calleeName(&gc.Call) == "bytes.HasPrefix" {
							if gc.Call.Args[1] == prefix && derivesFromInput(gc.Call.Args[0], pi.bufPrm, 0) {
								okG = true
							}
						}
					}
					c.Check(okG, "C02-R6", fmt.Sprintf("%s:skip[len(%s):]", name, valName(prefix)), p.pos(in.Pos()), "the skipped prefix must have been compared successfully (bytes.HasPrefix(input, prefix)) on every path")
				}
			}
		}
	})
	// event payloads: arguments of event constructors must not depend on len(input) either
	eachInstr(pi.fn, func(in ssa.Instruction) {
		cc := callCommon(in)
		if cc == nil || cc.IsInvoke() {
			return
		}
		f := staticCallee(cc)
		if f == nil || !strings.HasPrefix(f.Name(), "NewEvent") {
			return
		}
		for _, a := range cc.Args {
			if sl, ok := a.(*ssa.Slice); ok {
				for _, bnd := range []ssa.Value{sl.Low, sl.High} {
					if usesLenOfInput(bnd, pi.bufPrm, 0) {
						bad5 = true
					}
				}
			}
		}
	})
	if !bad5 {
		c.OK("C02-R5", name+":prefix-local", p.pos(pi.fn.Pos()), fmt.Sprintf("%d reslices of the input, none bounded by len(input)", n))
	}
	_ = nskip
}

func c02Collect(c *Ctx, p *Prog, fn *ssa.Function, parsers []*parserInfo) {
	isParser := map[*ssa.Function]bool{}
	for _, pi := range parsers {
		isParser[pi.fn] = true
	}
	// the loop header: a block with a back edge that contains / dominates the parser calls
	loops := loopsOf(fn)
	var header *ssa.BasicBlock
	for h, body := range loops {
		n := 0
		for b := range body {
			for _, in := range b.Instrs {
				if cc := callCommon(in); cc != nil && isParser[staticCallee(cc)] {
					n++
				}
			}
		}
		if n >= 3 {
			header = h
		}
	}
	if header == nil {
		c.Undecided("C02-R3", "collect:loop", p.pos(fn.Pos()), "loop around the parser calls not found")
		return
	}
	body := loops[header]
	const prog Facts = 1
	instrT := func(in ssa.Instruction, f Facts) Facts {
		if in.Block() == header && in == header.Instrs[0] {
			f &^= prog
		}
		if cc := callCommon(in); cc != nil && calleeName(cc) == "(*bytes.Buffer).ReadByte" {
			f |= prog
		}
		// a helper that takes at least one byte off the buffer on every one of its paths
		// (`res = t.deliverUnmatched(buf, res)`)
		if cc := callCommon(in); cc != nil {
			if h := cc.StaticCallee(); h != nil && h.Pkg == p.Tcell && len(h.Blocks) > 0 && !isParser[h] {
				for i, a := range cc.Args {
					if typeName(a.Type()) == "*bytes.Buffer" && i < len(h.Params) && alwaysConsumes(h, h.Params[i]) {
						f |= prog
					}
				}
			}
		}
		return f
	}
	edgeT := func(from *ssa.BasicBlock, idx int, f Facts) Facts {
		iff, ok := from.Instrs[len(from.Instrs)-1].(*ssa.If)
		if !ok || idx != 0 {
			return f
		}
		if ex, ok := iff.Cond.(*ssa.Extract); ok && ex.Index == 1 {
			if call, ok := ex.Tuple.(*ssa.Call); ok && isParser[staticCallee(&call.Call)] {
				return f | prog
			}
		}
		return f
	}
	in := mustFlow(fn, 0, instrT, edgeT)
	okProg := true
	nback := 0
	for _, pr := range header.Preds {
		if !body[pr] || !header.Dominates(pr) {
			continue
		}
		nback++
		f := in[pr]
		for _, ins := range pr.Instrs {
			f = instrT(ins, f)
		}
		for i, s := range pr.Succs {
			if s == header {
				if edgeT(pr, i, f)&prog == 0 {
					okProg = false
				}
			}
		}
	}
	c.Check(okProg && nback > 0, "C02-R3", "collect:every-cycle-progresses", p.pos(firstPos(header)), fmt.Sprintf("%d back edges, each after a parser completed or a byte was read", nback))
	// R4
	for i, r := range returnsOf(fn) {
		g := guardsAt(r.Block())
		empty, expired := false, false
		for _, a := range g {
			if strings.HasPrefix(a.L, "len(") && a.Op == "==" && a.R == "0" {
				empty = true
			}
			if a.L == "expire" && ((a.Op == "==" && a.R == "false") || (a.Op == "!=" && a.R == "true")) {
				expired = true
			}
		}
		kind := "empty-buffer"
		if !empty {
			kind = "wait-for-more"
		}
		c.Check(empty || expired, "C02-R4", fmt.Sprintf("collect:exit#%d:%s", i+1, kind), p.pos(r.Pos()), fmt.Sprintf("exit under empty buffer: %v; behind the false edge of expire: %v", empty, expired))
	}
	// R8
	var calls []*ssa.Call
	eachInstr(fn, func(in ssa.Instruction) {
		if call, ok := in.(*ssa.Call); ok && isParser[staticCallee(&call.Call)] {
			calls = append(calls, call)
		}
	})
	ind, counted := pendingIndicator(fn, isParser)
	for _, call := range calls {
		nm := staticCallee(&call.Call).Name()
		c.Check(counted[call], "C02-R8", "collect:"+nm+":partial-counted", p.pos(call.Pos()), "the pending indicator is raised (incremented / set) under this parser's partial result")
	}
	// the gate: a test of the indicator ("nothing pending") guards the raw delivery, together with expire
	gate := false
	for _, b := range fn.Blocks {
		if len(b.Instrs) == 0 {
			continue
		}
		if iff, ok := b.Instrs[len(b.Instrs)-1].(*ssa.If); ok && testsIndicator(iff.Cond, ind) {
			gate = true
		}
	}
	c.Check(gate, "C02-R8", "collect:gate", p.pos(fn.Pos()), "raw delivery is gated by the pending indicator (nothing pending, or expire)")
}

// c02Index: R7 on one function.
func c02Index(c *Ctx, p *Prog, fn *ssa.Function, parsers []*parserInfo) {
	name := fn.Name()
	n := 0
	eachInstr(fn, func(in ssa.Instruction) {
		var x, idx ssa.Value
		switch v := in.(type) {
		case *ssa.IndexAddr:
			x, idx = v.X, v.Index
		case *ssa.Index:
			x, idx = v.X, v.Index
		default:
			return
		}
		if _, isSlice := x.Type().Underlying().(*types.Slice); !isSlice {
			if _, isStr := x.Type().Underlying().(*types.Basic); !isStr {
				return
			}
		}
		// skip indexing of freshly built argument arrays (variadic slices)
		if _, isAlloc := x.(*ssa.Alloc); isAlloc {
			return
		}
		n++
		key := fmt.Sprintf("%s:index#%d:%s[%s]", name, n, regSuffix.ReplaceAllString(valName(x), ""), regSuffix.ReplaceAllString(valName(idx), ""))
		if isRangeIndex(idx) {
			c.OK("C02-R7", key, p.pos(in.Pos()), "range index over the same slice")
			return
		}
		// loop variable assigned from a range index (i = range b lowered through a phi of the same range)
		if phi, ok := idx.(*ssa.Phi); ok {
			all := true
			for _, e := range phi.Edges {
				if _, isC := constInt(e); !isC && !isRangeIndex(e) && e != ssa.Value(phi) {
					all = false
				}
			}
			if all {
				// used inside the range loop only if guarded by the loop condition on the same slice
				for _, a := range guardsAt(in.Block()) {
					if strings.Contains(a.String(), "len("+valName(x)+")") {
						c.OK("C02-R7", key, p.pos(in.Pos()), "range variable under the loop condition")
						return
					}
				}
			}
		}
		k, isConst := constInt(idx)
		if !isConst {
			// base + k with the length of the same slice known to exceed it: `len(x) > base + m` with
			// m >= k (or `>= base + m` with m > k), the base being a length or otherwise non-negative
			if why, ok := symbolicIndexBound(in, x, idx); ok {
				c.OK("C02-R7", key, p.pos(in.Pos()), why)
				return
			}
			c.Fail("C02-R7", key, p.pos(in.Pos()), "variable index without a recognised bound")
			return
		}
		g := guardsAt(in.Block())
		ln := "len(" + valName(x) + ")"
		okG := false
		why := ""
		for _, a := range g {
			if a.L != ln {
				continue
			}
			var v int64
			if _, err := fmt.Sscanf(a.R, "%d", &v); err != nil {
				continue
			}
			switch a.Op {
			case "!=":
				if v == 0 && k == 0 {
					okG, why = true, "len != 0"
				}
			case ">":
				if v >= k {
					okG, why = true, "len > "+a.R
				}
			case ">=":
				if v > k {
					okG, why = true, "len >= "+a.R
				}
			case "==":
				if v > k {
					okG, why = true, "len == "+a.R
				}
			}
		}
		// several tests together: the smallest length that passes all of them (len != 0, len != 1 → at least 2)
		if !okG {
			least := int64(0)
			excluded := map[int64]bool{}
			for _, a := range g {
				if a.L != ln {
					continue
				}
				var v int64
				if _, err := fmt.Sscanf(a.R, "%d", &v); err != nil {
					continue
				}
				switch a.Op {
				case "!=":
					excluded[v] = true
				case ">":
					if v+1 > least {
						least = v + 1
					}
				case ">=":
					if v > least {
						least = v
					}
				}
			}
			for excluded[least] {
				least++
			}
			if least > k {
				okG, why = true, fmt.Sprintf("the tests on the length leave %d as the smallest possible", least)
			}
		}
		// HasPrefix(x, e) == true with len(e) == m > k
		if !okG {
			for _, rg := range rawGuardsAt(in.Block()) {
				if gc, ok := rg.Cond.(*ssa.Call); ok && rg.Positive && calleeName(&gc.Call) == "bytes.HasPrefix" && gc.Call.Args[0] == x {
					el := "len(" + valName(gc.Call.Args[1]) + ")"
					for _, a := range g {
						var v int64
						if a.L == el && a.Op == "==" {
							if _, err := fmt.Sscanf(a.R, "%d", &v); err == nil && v > k {
								okG, why = true, "HasPrefix(x, e) with "+el+" == "+a.R
							}
						}
					}
				}
			}
		}
		// a window of constant length cut out of the input: x = y[lo : lo+n] with n > k, the cut itself
		// made where len(y) >= lo+n is known
		if !okG {
			if sl, isSl := x.(*ssa.Slice); isSl && sl.Low != nil && sl.High != nil {
				lb, lo := linBase(sl.Low)
				hb, hi := linBase(sl.High)
				if lb == hb && hi-lo > k && lo >= 0 {
					ly := "len(" + valName(sl.X) + ")"
					for _, a := range guardsAt(sl.Block()) {
						if (a.L == ly && a.Op == ">=" && a.R == valName(sl.High)) || (a.R == ly && a.Op == "<=" && a.L == valName(sl.High)) {
							okG, why = true, fmt.Sprintf("a window of %d bytes cut where %s >= %s is known", hi-lo, ly, valName(sl.High))
						}
					}
				}
			}
		}
		// guard at every caller: the callers return on an empty buffer before calling
		if !okG && k == 0 {
			if call, ok := x.(*ssa.Call); ok && calleeName(&call.Call) == "(*bytes.Buffer).Bytes" {
				if callersGuardNonEmpty(p, fn) {
					okG, why = true, "every caller returns on an empty buffer before the call and nothing consumes in between"
				}
			}
		}
		c.Check(okG, "C02-R7", key, p.pos(in.Pos()), "constant index "+fmt.Sprint(k)+": "+why)
	})
}

// callersGuardNonEmpty: every call of fn (a parser) is dominated by the false edge of
// `len(buf.Bytes()) == 0` in its caller, with no buffer consumption between the test and the call.
func callersGuardNonEmpty(p *Prog, fn *ssa.Function) bool {
	n := 0
	ok := true
	for _, g := range p.modFns {
		if g.Pkg != fn.Pkg {
			continue
		}
		eachInstr(g, func(in ssa.Instruction) {
			cc := callCommon(in)
			if cc == nil || staticCallee(cc) != fn {
				return
			}
			n++
			found := false
			for _, a := range guardsAt(in.Block()) {
				if strings.HasPrefix(a.L, "len(") && strings.Contains(a.L, "Bytes(") && a.Op == "!=" && a.R == "0" {
					found = true
				}
			}
			if !found {
				ok = false
				return
			}
			// nothing consuming between the Bytes() call of the guard and this call: the call must be the
			// first parser call after the test in its block chain — approximated: no ReadByte dominates it
			// without also dominating the test.
			for _, r := range callsIn(g, func(nm string, _ *ssa.CallCommon) bool { return nm == "(*bytes.Buffer).ReadByte" }) {
				if instrDominates(r, in) {
					ok = false
				}
			}
			// no other parser call strictly between (a parser that completed `continue`s to the loop head)
		})
	}
	return ok && n > 0
}

// pendingIndicator finds, by role, the variable with which the collect loop remembers that some parser
// answered "partial" in this cycle: an int that is incremented or a bool that is set, in a block that is
// control-dependent on a parser's partial result.  It returns every SSA value that carries the
// indicator (the increments / the phis that merge them) and the parser calls that raise it.
func pendingIndicator(fn *ssa.Function, isParser map[*ssa.Function]bool) (map[ssa.Value]bool, map[*ssa.Call]bool) {
	ind := map[ssa.Value]bool{}
	counted := map[*ssa.Call]bool{}
	partialOf := func(b *ssa.BasicBlock) *ssa.Call {
		var out *ssa.Call
		for _, g := range rawGuardsAt(b) {
			if ex, ok := g.Cond.(*ssa.Extract); ok && g.Positive && ex.Index == 0 {
				if call, ok := ex.Tuple.(*ssa.Call); ok && isParser[staticCallee(&call.Call)] {
					out = call
				}
			}
		}
		return out
	}
	eachInstr(fn, func(in ssa.Instruction) {
		switch x := in.(type) {
		case *ssa.BinOp: // partials++
			if x.Op != token.ADD {
				return
			}
			if k, ok := constInt(x.Y); !ok || k != 1 {
				return
			}
			if call := partialOf(x.Block()); call != nil {
				counted[call] = true
				ind[x] = true
			}
		case *ssa.Phi: // pending = true
			if b, ok := x.Type().Underlying().(*types.Basic); !ok || b.Kind() != types.Bool || x.Comment == "&&" || x.Comment == "||" {
				return
			}
			for i, e := range x.Edges {
				if v, isB := constBool(e); isB && v {
					pred := x.Block().Preds[i]
					call := partialOf(pred)
					if call == nil && len(pred.Instrs) > 0 {
						// the edge may come straight from the test of the partial result
						if iff, isIf := pred.Instrs[len(pred.Instrs)-1].(*ssa.If); isIf && pred.Succs[0] == x.Block() {
							if ex, okE := iff.Cond.(*ssa.Extract); okE && ex.Index == 0 {
								if cl, okC := ex.Tuple.(*ssa.Call); okC && isParser[staticCallee(&cl.Call)] {
									call = cl
								}
							}
						}
					}
					if call != nil {
						counted[call] = true
						ind[x] = true
					}
				}
			}
		}
	})
	// close over the phis that merge indicator values
	for changed := true; changed; {
		changed = false
		eachInstr(fn, func(in ssa.Instruction) {
			phi, ok := in.(*ssa.Phi)
			if !ok || ind[phi] {
				return
			}
			for _, e := range phi.Edges {
				if ind[e] {
					ind[phi] = true
					changed = true
				}
			}
		})
	}
	return ind, counted
}

// testsIndicator: cond asks whether anything is pending (ind == 0, ind != 0, ind, !ind, or a short-circuit
// combination containing such a test).
func testsIndicator(cond ssa.Value, ind map[ssa.Value]bool) bool {
	for _, g := range expandCond(cond, true, 0) {
		v, _ := condKey(g.Cond)
		if ind[v] {
			return true
		}
		if bo, ok := v.(*ssa.BinOp); ok && (bo.Op == token.EQL || bo.Op == token.NEQ || bo.Op == token.GTR) && ind[bo.X] {
			if k, isK := constInt(bo.Y); isK && k == 0 {
				return true
			}
		}
	}
	for _, g := range expandCond(cond, false, 0) {
		v, _ := condKey(g.Cond)
		if ind[v] {
			return true
		}
		if bo, ok := v.(*ssa.BinOp); ok && (bo.Op == token.EQL || bo.Op == token.NEQ || bo.Op == token.GTR) && ind[bo.X] {
			if k, isK := constInt(bo.Y); isK && k == 0 {
				return true
			}
		}
	}
	return false
}

// helperHasEffect: h (or a module function it calls, to the given depth) stores into a screen field or
// removes bytes from a buffer.
func helperHasEffect(h *ssa.Function, depth int) bool {
	found := false
	eachInstr(h, func(in ssa.Instruction) {
		if st, ok := in.(*ssa.Store); ok {
			if ref, _, ok := fieldAddrRef(st.Addr); ok && ref.Owner == "tcell.tScreen" {
				found = true
			}
			// an append to an event list handed in by pointer
			if pa, isP := st.Addr.(*ssa.Parameter); isP && strings.HasSuffix(pa.Type().String(), "[]github.com/gdamore/tcell/v2.Event") {
				found = true
			}
		}
		if cc := callCommon(in); cc != nil {
			n := calleeName(cc)
			if strings.HasPrefix(n, "(*bytes.Buffer).") {
				switch strings.TrimPrefix(n, "(*bytes.Buffer).") {
				case "ReadByte", "ReadBytes", "Next", "Read", "ReadRune", "ReadString", "Truncate", "Reset":
					found = true
				}
			}
			if g := cc.StaticCallee(); g != nil && g != h && g.Pkg == h.Pkg && len(g.Blocks) > 0 && depth > 0 && helperHasEffect(g, depth-1) {
				found = true
			}
		}
	})
	return found
}

// linBase splits v into base + constant (base nil for a plain constant).
func linBase(v ssa.Value) (ssa.Value, int64) {
	v = stripConv(v)
	if k, ok := constInt(v); ok {
		return nil, k
	}
	if bo, ok := v.(*ssa.BinOp); ok && (bo.Op == token.ADD || bo.Op == token.SUB) {
		if k, isK := constInt(bo.Y); isK {
			b, off := linBase(bo.X)
			if bo.Op == token.SUB {
				k = -k
			}
			return b, off + k
		}
		if k, isK := constInt(bo.X); isK && bo.Op == token.ADD {
			b, off := linBase(bo.Y)
			return b, off + k
		}
	}
	return v, 0
}

// symbolicIndexBound: x[idx] with idx = base + k is in bounds because a dominating test compares
// len(x) with base + m for a suitable m, and base + k cannot be negative.
func symbolicIndexBound(at ssa.Instruction, x, idx ssa.Value) (string, bool) {
	base, k := linBase(idx)
	if base == nil {
		return "", false
	}
	nonNeg := k >= 0
	if nonNeg {
		if call, ok := base.(*ssa.Call); ok {
			if bi, isB := call.Call.Value.(*ssa.Builtin); !isB || bi.Name() != "len" {
				nonNeg = false
			}
		} else if okN, _ := nonNegative(base, at, 0); !okN {
			nonNeg = false
		}
	}
	if !nonNeg {
		return "", false
	}
	isLenX := func(v ssa.Value) bool {
		call, ok := stripConv(v).(*ssa.Call)
		if !ok {
			return false
		}
		bi, isB := call.Call.Value.(*ssa.Builtin)
		return isB && bi.Name() == "len" && (call.Call.Args[0] == x || sameValue(call.Call.Args[0], x))
	}
	for _, g := range rawGuardsAt(at.Block()) {
		bo, ok := g.Cond.(*ssa.BinOp)
		if !ok {
			continue
		}
		l, r, op := bo.X, bo.Y, bo.Op
		if !isLenX(l) && isLenX(r) {
			l, r, op = r, l, swapTok(op)
		}
		if !isLenX(l) {
			continue
		}
		if !g.Positive {
			op = negTok(op)
		}
		gb, m := linBase(r)
		if gb == nil || !(gb == base || sameValue(gb, base)) {
			continue
		}
		if (op == token.GTR && m >= k) || (op == token.GEQ && m > k) {
			return fmt.Sprintf("index %s%+d under len %s %s%+d", valName(base), k, op, valName(base), m), true
		}
	}
	return "", false
}

// alwaysConsumes: every path through h to a return passes a call that removes at least one byte from
// the buffer buf (ReadByte, or Next with a positive constant).
func alwaysConsumes(h *ssa.Function, buf *ssa.Parameter) bool {
	stop := map[ssa.Instruction]bool{}
	eachInstr(h, func(in ssa.Instruction) {
		cc := callCommon(in)
		if cc == nil || len(cc.Args) == 0 || cc.Args[0] != ssa.Value(buf) {
			return
		}
		switch calleeName(cc) {
		case "(*bytes.Buffer).ReadByte":
			stop[in] = true
		case "(*bytes.Buffer).Next":
			if k, ok := constInt(cc.Args[1]); ok && k >= 1 {
				stop[in] = true
			}
		}
	})
	if len(stop) == 0 {
		return false
	}
	rets := returnsOf(h)
	for _, r := range rets {
		if existsPathFromEntryAvoiding(h, r, stop) {
			return false
		}
	}
	return len(rets) > 0
}

// isMinOfLenAndConst: v is `n := len(input); if n > K { n = K }` — a phi of len(input) and a constant in
// which the length arrives only along an edge where it is known not to exceed the constant.
func isMinOfLenAndConst(v ssa.Value, buf *ssa.Parameter) bool {
	phi, ok := v.(*ssa.Phi)
	if !ok || len(phi.Edges) != 2 {
		return false
	}
	for i, e := range phi.Edges {
		o := phi.Edges[1-i]
		k, isK := constInt(o)
		if !isK {
			if call, isCall := o.(*ssa.Call); isCall {
				if b, isB := call.Call.Value.(*ssa.Builtin); isB && b.Name() == "len" {
					if s, isS := constString(call.Call.Args[0]); isS {
						k, isK = int64(len(s)), true
					}
				}
			}
		}
		if !isK || !usesLenOfInput(e, buf, 0) {
			continue
		}
		if _, isCall := e.(*ssa.Call); !isCall {
			continue
		}
		if i >= len(phi.Block().Preds) {
			continue
		}
		for _, a := range guardsOnEdge(phi.Block().Preds[i], phi.Block()) {
			if a.L != valName(e) {
				continue
			}
			if r, err := strconv.ParseInt(a.R, 10, 64); err == nil {
				if (a.Op == "<=" && r <= k) || (a.Op == "<" && r <= k+1) {
					return true
				}
			}
		}
	}
	return false
}

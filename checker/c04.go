package main

import (
	"fmt"
	"go/token"
	"go/types"
	"strings"

	"golang.org/x/tools/go/ssa"
)

func init() {
	register("C04", checkC04, "Terminal mode registers over histories need a terminal model and are not statically decidable. Decided, on every path of engage / disengage / finalize / finish and the mode togglers (found by role: the callers of Tty.Start / Stop / Close): for every mode the screen can set (alternate screen, keypad, cursor visibility, auto-margin, saved title, mouse, paste, focus, cursor shape and colour, colours, attributes) the shutdown path emits the matching reset before Tty.Stop, control-dependent only on the same environment switch, on the emitted string being non-empty, or on the cursor state tests; the Tty is driven in contract order (Drain, NotifyResize(nil) and the goroutine join dominate Stop; nothing is written after Stop; Close only in finalize after disengage; finalize only from finish; finish only through the sync.Once); Resume re-applies the persistent mode fields and every toggler stores the persistent field together with the matching emission under the lock. Whether the reset strings undo the set strings on a real terminal is database content (C09/C14) and not decided here.")
}

// emitIdent names what an emitting call writes: "field:X", "prepared:G", "call:enableMouse(0)", …
func emitIdents(p *Prog, in ssa.Instruction) []string { return emitIdentsBound(p, in, nil) }

// emitIdentsBound: emitIdents with the arguments of mode calls seen through bind (helper parameter →
// argument of the enclosing call).
func emitIdentsBound(p *Prog, in ssa.Instruction, bind func(ssa.Value) ssa.Value) []string {
	cc := callCommon(in)
	if cc == nil {
		return nil
	}
	n := calleeName(cc)
	capArg, varArg, isText := textEmitterCall(p, in)
	switch {
	case strings.HasSuffix(n, "tScreen).TPuts") || isText:
		var out []string
		srcs := []emitSrc(nil)
		if isText {
			srcs = classifyExpansion(p, capArg, varArg, 0)
		} else {
			srcs = classifyEmit(p, cc.Args[1], 0)
		}
		for _, s := range srcs {
			switch s.kind {
			case "field":
				out = append(out, "field:"+s.name)
			case "prepared":
				out = append(out, "prepared:"+s.name)
			case "literal":
				out = append(out, "literal")
			default:
				out = append(out, s.kind)
			}
		}
		if isText {
			return out
		}
		// map lookups: remember the map and the key
		if ex := derefCell(cc.Args[1]); ex != nil {
			var lk *ssa.Lookup
			switch x := ex.(type) {
			case *ssa.Lookup:
				lk = x
			case *ssa.Extract:
				lk, _ = x.Tuple.(*ssa.Lookup)
			}
			if lk != nil {
				if ref, _, ok := loadedField(lk.X); ok {
					key := valName(lk.Index)
					out = []string{"map:" + ref.Name + "[" + key + "]"}
				}
			}
		}
		return out
	case strings.HasSuffix(n, "tScreen).enableMouse"), strings.HasSuffix(n, "tScreen).enablePasting"):
		name := n[strings.LastIndex(n, ".")+1:]
		a := cc.Args[1]
		if bind != nil {
			a = bind(a)
		}
		return []string{"call:" + name + "(" + valName(a) + ")"}
	case strings.HasSuffix(n, "tScreen).enableFocusReporting"), strings.HasSuffix(n, "tScreen).disableFocusReporting"):
		return []string{"call:" + n[strings.LastIndex(n, ".")+1:]}
	}
	// one method for both directions (`focusReporting(on bool)`): named by what the argument selects
	if idx, ok := focusSwitch(p, cc.StaticCallee()); ok && idx < len(cc.Args) {
		a := cc.Args[idx]
		if bind != nil {
			a = bind(a)
		}
		if v, isC := constBool(a); isC {
			if v {
				return []string{"call:enableFocusReporting"}
			}
			return []string{"call:disableFocusReporting"}
		}
		return []string{"call:focusReporting(" + valName(a) + ")"}
	}
	return nil
}

// focusSwitch: h is a screen method with a boolean parameter that writes the terminal's
// focus-reporting "on" string where the parameter is true and the "off" string where it is false (one
// TPuts of a value chosen between the two).  Returns the parameter's position.
func focusSwitch(p *Prog, h *ssa.Function) (int, bool) {
	if h == nil || h.Pkg != p.Tcell || len(h.Blocks) == 0 || recvTypeName(h) != "tcell.tScreen" {
		return 0, false
	}
	idx := -1
	for i, pa := range h.Params {
		if bt, ok := pa.Type().Underlying().(*types.Basic); ok && bt.Kind() == types.Bool {
			idx = i
		}
	}
	if idx < 0 {
		return 0, false
	}
	puts := callsIn(h, func(n string, _ *ssa.CallCommon) bool { return strings.HasSuffix(n, "tScreen).TPuts") })
	if len(puts) != 1 {
		return 0, false
	}
	phi, ok := derefCell(callCommon(puts[0]).Args[1]).(*ssa.Phi)
	if !ok || len(phi.Edges) != 2 {
		return 0, false
	}
	on, off := false, false
	for i, e := range phi.Edges {
		ref, _, isF := loadedField(e)
		if !isF || ref.Owner != "tcell.tScreen" {
			return 0, false
		}
		sel := ""
		for _, a := range guardsOnEdge(phi.Block().Preds[i], phi.Block()) {
			if a.L == h.Params[idx].Name() && a.Op == "==" {
				sel = a.R
			}
		}
		switch {
		case ref.Name == "enableFocus" && sel == "true":
			on = true
		case ref.Name == "disableFocus" && sel == "false":
			off = true
		}
	}
	return idx, on && off
}

// togglerView: what a mode toggler does, in its own body or in helpers it is written with
// (`EnableFocus() { t.setFocus(true) }`): the stores to the remembered field and the emissions, each
// with the helper parameters replaced by the arguments actually passed, the conditions it sits under,
// and whether a Lock of the screen precedes it.
type tvSite struct {
	d      deepInstr
	val    string // stores: the stored value; emissions: the identity
	arg    string // emissions through a call with an argument: that argument
	locked bool
}

func togglerView(p *Prog, fn *ssa.Function, field string) (stores, emits []tvSite) {
	deep := deepInstrs(p, fn, 2, func(call ssa.Instruction, _ *ssa.Function) bool { return len(emitIdents(p, call)) == 0 })
	var locks []deepInstr
	for _, d := range deep {
		if isCallTo(d.in, "(*sync.Mutex).Lock") {
			locks = append(locks, d)
		}
	}
	locked := func(d deepInstr) bool {
		for _, l := range locks {
			if len(l.chain) == 0 && instrDominates(l.in, d.anchor) && l.in != d.anchor {
				return true
			}
			if l.in.Parent() == d.in.Parent() && instrDominates(l.in, d.in) {
				return true
			}
		}
		return false
	}
	for _, d := range deep {
		if st, ok := d.in.(*ssa.Store); ok {
			if ref, _, isF := fieldAddrRef(st.Addr); isF && ref.Owner == "tcell.tScreen" && ref.Name == field {
				stores = append(stores, tvSite{d: d, val: valName(d.bindVal(st.Val)), locked: locked(d)})
			}
		}
		for _, id := range emitIdentsBound(p, d.in, d.bindVal) {
			site := tvSite{d: d, val: id, locked: locked(d)}
			if cc := callCommon(d.in); cc != nil && len(cc.Args) > 1 {
				site.arg = valName(d.bindVal(cc.Args[1]))
			}
			emits = append(emits, site)
		}
	}
	return
}

func checkC04(c *Ctx) {
	c.Rule("C04-R1", "for every mode that can be set, disengage emits the matching reset before Tty.Stop, guarded only by the same environment switch or the availability of the very string emitted (not by what the application currently requests)")
	c.Rule("C04-R2", "Tty contract order: Drain, NotifyResize(nil), wg.Wait dominate Stop; no write after Stop; Close only in finalize after disengage; finalize only from finish; finish only via sync.Once")
	c.Rule("C04-R3", "engage re-applies mouse/paste/focus/title from the persistent fields; every toggler stores the persistent field and emits consistently, under the lock")
	c.Rule("C04-R5", "mode strings come in pairs: the built-in fallback of the string that switches a mode off is assigned under the same conditions as the fallback of the string that switches it on; in engage the title is saved before it is set")
	c.Rule("C04-R6", "a mode toggled while the screen is not running (suspended, or before Init) is remembered and not written: every emission of the mode togglers and of SetTitle is behind the running test (engage applies the remembered modes; a write to the stopped Tty would leave the mode on after Fini, whose teardown returns at once on a screen that is not running)")
	c.Rule("C04-R8", "switching a mode off does not consult the bookkeeping: enableMouse emits the all-off string under no condition but mouse support (DisableMouse has zeroed the remembered flags before the helper runs), and every toggler stores the remembered value unconditionally (also on a suspended screen)")
	c.Expect("C04-R8", 7)
	c.Rule("C04-R7", "what the shutdown path undoes at every hand-back, engage did at every take-over: the enter/push emissions (alternate screen, keypad, cursor, auto-margin, title stack) carry no guard beyond the environment switch and the string being present")
	c.Expect("C04-R7", 5)
	c.Expect("C04-R6", 7)
	c.Expect("C04-R5", 3)
	c.Rule("C04-R4", "the remembered modes (mouse flags, paste, focus, title, cursor style and colour) are stored only by the application-facing togglers: nothing reachable from Suspend, Resume or Fini stores them")
	c.Expect("C04-R4", 6)
	for r, n := range map[string]int{"C04-R1": 12, "C04-R2": 8, "C04-R3": 10} {
		c.Expect(r, n)
	}
	c.Assume("Tty implementations follow the documented contract (Start/Drain/Stop/Close)")
	p := c.P("linux")
	if p == nil || p.Tcell == nil {
		c.Undecided("C04-R1", "package tcell", "-", "not loaded")
		return
	}
	c.Rule("C04-R11", "the hand-back path selects no colour and switches no attribute on: disengage and the helpers it calls emit resets only (a clear through the drawing helper re-selects the screen's default colours after ResetFgBg)")
	c.Expect("C04-R11", 1)
	checkHandBackSelectsNoColours(c, p, "C04-R11")
	c.Rule("C04-R12", "no I/O after Stop: both library goroutines are counted in the wait group before they start and each defers its Done, so the wait in disengage covers the reader as well as the main loop before the terminal is handed back (= C05-R3)")
	c.Expect("C04-R12", 5)
	c.asRule("C05-R3", "C04-R12", func() { c05Pipeline(c, p) })
	c.Rule("C04-R13", "the cursor has its default shape again: every table of cursor-shape strings the screen builds has an entry for CursorStyleDefault, the one the hand-back emits (a table without it yields the empty string and the application's shape stays)")
	c.Expect("C04-R13", 2)
	checkCursorStyleTablesHaveDefault(c, p, "C04-R13")
	c.Rule("C04-R14", "after Resume exactly the modes the application had: each Enable…/Disable… records the request on every path, whatever state the screen is in (a setter that returns early while suspended leaves the old mode to be re-applied)")
	c.Expect("C04-R14", 6)
	checkModeSettersAlwaysRemember(c, p, "C04-R14", "tScreen", map[string]string{"EnableMouse": "mouseFlags", "DisableMouse": "mouseFlags", "EnablePaste": "pasteEnabled", "DisablePaste": "pasteEnabled", "EnableFocus": "focusEnabled", "DisableFocus": "focusEnabled"})
	c.Rule("C04-R15", "after Resume exactly the modes the application had: EnableMouse records the flags it applies (after the no-argument default), not the raw argument")
	c.Expect("C04-R15", 1)
	checkMouseFlagsStoredAsApplied(c, p, "C04-R15", "tScreen")
	c.Rule("C04-R17", "Fini and Suspend restore the terminal whatever the Tty reports: once the teardown has marked the screen as not running every way out passes Tty.Stop (an early return on a Drain error leaves every mode on, and the next Fini sees a screen that is not running)")
	c.Expect("C04-R17", 1)
	checkTeardownCompletes(c, p, "C04-R17")
	c.Rule("C04-R16", "all writes before Stop: a frame is written by draw itself, with the screen's mutex held, so that the restore sequence of disengage cannot be overtaken by a frame still on its way (the flush is in draw, after the reset of the frame buffer; = C13-R16)")
	c.Expect("C04-R16", 1)
	checkFrameBufferStartsEmpty(c, p, "C04-R16")
	c.Rule("C04-R10", "nothing is drawn on a terminal that has been handed back: draw() does nothing unless the screen is running, or every one of its callers (Show, Sync, the resize handler) tests that itself — what Sync writes to a suspended terminal is never undone, Fini finds nothing to restore")
	c.Expect("C04-R10", 1)
	c.asRule("C06-R8", "C04-R10", func() { c06DrawProgress(c, p) })
	c.Rule("C04-R9", "in every description the set and the reset string of a mode differ (a reset that repeats the set string leaves the mode as the application left it), and DEC private mode pairs end in h and l the right way round")
	c.Expect("C04-R9", 1)
	if db := buildDB(c, p); db != nil {
		checkModePairsDiffer(c, p, "C04-R9", db)
	}
	// anchors by role
	var engage, disengage, finalize *ssa.Function
	var stopCall, startCall, closeCall ssa.Instruction
	for _, fn := range p.modFns {
		if fn.Pkg != p.Tcell || recvTypeName(topFunc(fn)) != "tcell.tScreen" {
			continue
		}
		eachInstr(fn, func(in ssa.Instruction) {
			cc := callCommon(in)
			if cc == nil || !cc.IsInvoke() || typeName(cc.Value.Type()) != "tcell.Tty" {
				return
			}
			switch cc.Method.Name() {
			case "Start":
				engage, startCall = fn, in
			case "Stop":
				disengage, stopCall = fn, in
			case "Close":
				finalize, closeCall = fn, in
			}
		})
	}
	if engage == nil || disengage == nil || finalize == nil {
		c.Undecided("C04-R1", "anchors", "-", "callers of Tty.Start/Stop/Close not found among tScreen methods")
		return
	}
	_ = startCall
	c.Note(fmt.Sprintf("anchors by role: engage=%s disengage=%s finalize=%s", engage.Name(), disengage.Name(), finalize.Name()))
	// engage together with the helpers it is written with (a call that is itself an emission in the
	// rules' vocabulary — enableMouse(f), TPuts, … — is not entered)
	engDeep := deepInstrs(p, engage, 3, func(call ssa.Instruction, _ *ssa.Function) bool { return len(emitIdents(p, call)) == 0 })

	// ---- R1
	// what can be set anywhere in the screen
	setSeen := map[string]bool{}
	unidentified := "" // an emission whose string is not identified (a table row, a variable): it could be any mode's
	for _, fn := range p.modFns {
		if fn.Pkg != p.Tcell || recvTypeName(topFunc(fn)) != "tcell.tScreen" || fn == disengage {
			continue
		}
		eachInstr(fn, func(in ssa.Instruction) {
			for _, id := range emitIdents(p, in) {
				setSeen[id] = true
				if id == "unknown" && unidentified == "" {
					unidentified = p.pos(in.Pos())
				}
			}
		})
	}
	for _, d := range deepInstrs(p, disengage, 3, func(call ssa.Instruction, _ *ssa.Function) bool { return len(emitIdents(p, call)) == 0 }) {
		for _, id := range emitIdents(p, d.in) {
			if id == "unknown" && unidentified == "" {
				unidentified = p.pos(d.in.Pos())
			}
		}
	}
	type pair struct {
		kind   string
		sets   []string // any of these emitted somewhere ⇒ the mode can be set
		reset  string   // identity of the reset emission required in disengage
		guards []string // substrings of allowed extra guard atoms
	}
	defKey := fmt.Sprint(pkgConst(p, "CursorStyleDefault"))
	pairs := []pair{
		{"alternate-screen", []string{"field:EnterCA"}, "field:ExitCA", []string{"TCELL_ALTSCREEN"}},
		{"keypad", []string{"field:EnterKeypad"}, "field:ExitKeypad", nil},
		{"cursor-visibility", []string{"field:HideCursor"}, "field:ShowCursor", nil},
		{"auto-margin", []string{"field:DisableAutoMargin"}, "field:EnableAutoMargin", nil},
		{"title-stack", []string{"prepared:saveTitle"}, "prepared:restoreTitle", []string{"TCELL_ALTSCREEN", "t.restoreTitle != \"\""}},
		{"mouse", []string{"call:enableMouse(t.mouseFlags)", "call:enableMouse(f)"}, "call:enableMouse(0)", nil},
		{"paste", []string{"call:enablePasting(t.pasteEnabled)", "call:enablePasting(true)"}, "call:enablePasting(false)", nil},
		{"focus", []string{"call:enableFocusReporting"}, "call:disableFocusReporting", nil},
		{"cursor-shape", []string{"map:cursorStyles[t.cursorStyle]"}, "map:cursorStyles[" + defKey + "]", []string{"t.cursorStyles != nil"}}, // not the application's current request: it says nothing about what an earlier Show sent
		{"cursor-colour", []string{"prepared:cursorRGB"}, "prepared:cursorFg", []string{"t.cursorFg != \"\""}},
		{"colours", []string{"field:SetFg", "field:SetBg", "field:SetFgBg", "field:SetFgRGB", "field:SetBgRGB", "field:SetFgBgRGB"}, "field:ResetFgBg", nil},
		{"hyperlink", []string{"prepared:enterUrl"}, "prepared:exitUrl", nil},
		{"attributes", []string{"field:Bold", "field:Underline", "field:Reverse", "field:Blink", "field:Dim", "field:Italic", "field:StrikeThrough"}, "field:AttrOff", nil},
	}
	// guards common to the whole tail (e.g. running == true) are those that also hold at Stop
	common := map[string]bool{}
	for _, a := range guardsAt(stopCall.Block()) {
		common[a.String()] = true
	}
	// the resets may be written in disengage itself or in helpers it calls (restoreTerminal, …): they
	// are looked for through static calls; a call that is itself an emission in the rule's vocabulary
	// (enableMouse(0), TPuts, …) is not entered
	resets := map[string][]deepInstr{}
	for _, d := range deepInstrs(p, disengage, 3, func(call ssa.Instruction, _ *ssa.Function) bool { return len(emitIdents(p, call)) == 0 }) {
		for _, id := range emitIdents(p, d.in) {
			resets[id] = append(resets[id], d)
		}
	}
	for _, pr := range pairs {
		canSet := false
		for _, s := range pr.sets {
			if setSeen[s] {
				canSet = true
			}
		}
		if !canSet {
			if unidentified != "" {
				c.Undecided("C04-R1", "pair:"+pr.kind, unidentified, "no emission that sets this mode is seen, but the string emitted here is not identified (a table row, a variable) and could be it or its reset")
				continue
			}
			c.Trivial("C04-R1", "pair:"+pr.kind, p.pos(disengage.Pos()), "the screen never sets this mode")
			continue
		}
		sites := resets[pr.reset]
		if len(sites) == 0 {
			c.Fail("C04-R1", "pair:"+pr.kind, p.pos(disengage.Pos()), "the mode can be set ("+strings.Join(pr.sets, ", ")+") but the shutdown path never emits "+pr.reset)
			continue
		}
		ok := false
		why := ""
		for _, ds := range sites {
			s := ds.anchor
			if !reachableAfter(s, stopCall) || reachableAfter(stopCall, s) {
				why = "emitted after Tty.Stop or on a path that does not reach it"
				continue
			}
			// resets belong to the final critical section, after the loops were joined: between the
			// join and Stop the lock is held, so no application call can switch the mode back on
			joined := false
			for _, w := range callsIn(disengage, func(n string, _ *ssa.CallCommon) bool { return n == "(*sync.WaitGroup).Wait" }) {
				if instrDominates(w, s) {
					joined = true
				}
			}
			// the join may sit in a helper (`stopLoops()`): the helper's call precedes the reset, and
			// the helper passes the join on every way to a return that lets disengage go on
			if !joined {
				for _, wd := range deepInstrs(p, disengage, 2, func(call ssa.Instruction, _ *ssa.Function) bool { return len(emitIdents(p, call)) == 0 }) {
					if !isCallTo(wd.in, "(*sync.WaitGroup).Wait") || len(wd.chain) == 0 || !instrDominates(wd.anchor, s) {
						continue
					}
					h := wd.in.Parent()
					call, _ := wd.anchor.(*ssa.Call)
					all := true
					for _, r := range returnsOf(h) {
						if call != nil && len(r.Results) == 1 {
							if v, isC := constBool(derefCell(resultOf(r, 0))); isC && !v {
								onlyOnTrue := false
								for _, g := range rawGuardsAt(s.Block()) {
									if g.Cond == ssa.Value(call) && g.Positive {
										onlyOnTrue = true
									}
								}
								if onlyOnTrue {
									continue
								}
							}
						}
						if !(instrDominates(wd.in, r) || mustPrecede(h, []ssa.Instruction{wd.in}, r)) {
							all = false
						}
					}
					if all {
						joined = true
					}
				}
			}
			if !joined {
				why = "emitted before the loops are joined (the lock is released while waiting; a concurrent Enable* call would not be undone)"
				continue
			}
			bad := []string{}
			for _, a := range ds.guards() {
				as := a.String()
				if isExpandedHelperAtom(p, a) {
					continue // its meaning is listed next to it
				}
				if common[as] {
					continue
				}
				allowed := false
				for _, g := range pr.guards {
					if strings.Contains(as, g) {
						allowed = true
					}
				}
				if !allowed {
					bad = append(bad, as)
				}
			}
			if len(bad) == 0 {
				ok = true
			} else {
				why = fmt.Sprintf("reset depends on %v, which is not tied to the mode being set", bad)
			}
		}
		c.Check(ok, "C04-R1", "pair:"+pr.kind, p.pos(sites[0].in.Pos()), fmt.Sprintf("reset %s before Tty.Stop %s", pr.reset, why))
	}

	// ---- R7: the other direction.  What the shutdown path undoes every time must have been done every
	// time: the enter/push emissions of engage carry no guard beyond the ones their leave/pop side is
	// allowed (the environment switch, the string being present).  A push that happens only the first
	// time while the pop happens at every hand-back empties a stack that belongs to the terminal.
	{
		commonE := map[string]bool{}
		for _, st := range storesTo(engage, "tcell.tScreen", "running") {
			if v, isC := constBool(st.Val); isC && v {
				for _, a := range guardsAt(st.Block()) {
					commonE[a.String()] = true
				}
			}
		}
		for _, a := range guardsAt(startCall.Block()) {
			commonE[a.String()] = true
		}
		// (engage's emissions may sit in helpers it is written with: enterScreen, applyModes, …)
		sets := map[string][]deepInstr{}
		for _, d := range engDeep {
			for _, id := range emitIdents(p, d.in) {
				sets[id] = append(sets[id], d)
			}
		}
		for _, pr := range []struct {
			kind, set string
			guards    []string
		}{
			{"alternate-screen", "field:EnterCA", []string{"TCELL_ALTSCREEN"}},
			{"keypad", "field:EnterKeypad", nil},
			{"cursor-visibility", "field:HideCursor", nil},
			{"auto-margin", "field:DisableAutoMargin", nil},
			{"title-stack", "prepared:saveTitle", []string{"TCELL_ALTSCREEN", "t.saveTitle != \"\""}},
		} {
			if len(resets[map[string]string{"alternate-screen": "field:ExitCA", "keypad": "field:ExitKeypad", "cursor-visibility": "field:ShowCursor", "auto-margin": "field:EnableAutoMargin", "title-stack": "prepared:restoreTitle"}[pr.kind]]) == 0 {
				c.Trivial("C04-R7", "setup:"+pr.kind, p.pos(engage.Pos()), "the shutdown path has no such reset")
				continue
			}
			sites := sets[pr.set]
			if len(sites) == 0 {
				c.Fail("C04-R7", "setup:"+pr.kind, p.pos(engage.Pos()), "the shutdown path emits the reset but engage never emits "+pr.set)
				continue
			}
			ok, why := false, ""
			for _, s := range sites {
				bad := []string{}
				for _, a := range s.atoms() {
					as := a.String()
					if isExpandedHelperAtom(p, a) {
						continue // its meaning is listed next to it
					}
					if commonE[as] {
						continue
					}
					allowed := false
					for _, g := range pr.guards {
						if strings.Contains(as, g) {
							allowed = true
						}
					}
					if !allowed {
						bad = append(bad, as)
					}
				}
				if len(bad) == 0 {
					ok = true
				} else {
					why = fmt.Sprintf("depends on %v although the reset is emitted at every hand-back", bad)
				}
			}
			c.Check(ok, "C04-R7", "setup:"+pr.kind, p.pos(sites[0].in.Pos()), fmt.Sprintf("%s emitted by engage whenever its reset will be %s", pr.set, why))
		}
	}

	// ---- R2
	// the steps of the hand-back may be written in disengage itself or in helpers it calls (stopLoops,
	// restoreTerminal): each is located through static calls, with the instruction of disengage it is
	// reached through (its anchor) for questions of order
	disDeep := deepInstrs(p, disengage, 2, func(call ssa.Instruction, _ *ssa.Function) bool { return len(emitIdents(p, call)) == 0 })
	find := func(pred func(in ssa.Instruction) bool) *deepInstr {
		for i := range disDeep {
			if pred(disDeep[i].in) {
				return &disDeep[i]
			}
		}
		return nil
	}
	ttyCall := func(m string) *deepInstr {
		return find(func(in ssa.Instruction) bool {
			cc := callCommon(in)
			return cc != nil && cc.IsInvoke() && typeName(cc.Value.Type()) == "tcell.Tty" && cc.Method.Name() == m
		})
	}
	drain := ttyCall("Drain")
	notify := ttyCall("NotifyResize")
	wait := find(func(in ssa.Instruction) bool { return isCallTo(in, "(*sync.WaitGroup).Wait") })
	closeStop := find(func(in ssa.Instruction) bool {
		if cl, ok := in.(*ssa.Call); ok {
			if b, ok := cl.Call.Value.(*ssa.Builtin); ok && b.Name() == "close" {
				return chanName(cl.Call.Args[0], nil, 0) == "tcell.tScreen.stopQ"
			}
		}
		return false
	})
	stopD := &deepInstr{in: stopCall, anchor: stopCall}
	// "before" = on every branch-consistent path (the same flag may be tested twice: once around the
	// drain and once for the early return); two steps inside the same helper are ordered there, a step
	// inside a helper that can return early without it counts only if disengage goes on only when the
	// helper said it was done
	before := func(a, b *deepInstr) bool {
		if a == nil || b == nil {
			return false
		}
		if a.anchor == b.anchor && a.in.Parent() == b.in.Parent() {
			f := a.in.Parent()
			return instrDominates(a.in, b.in) || mustPrecede(f, []ssa.Instruction{a.in}, b.in)
		}
		if !(instrDominates(a.anchor, b.anchor) || mustPrecede(disengage, []ssa.Instruction{a.anchor}, b.anchor)) {
			return false
		}
		if len(a.chain) == 0 {
			return true
		}
		// a is inside a helper: on every return of the helper that lets disengage go on, a was passed
		h := a.in.Parent()
		call, _ := a.anchor.(*ssa.Call)
		for _, r := range returnsOf(h) {
			if call != nil && len(r.Results) == 1 {
				if v, isC := constBool(derefCell(resultOf(r, 0))); isC && !v {
					goesOn := true
					for _, g := range rawGuardsAt(b.anchor.Block()) {
						if g.Cond == ssa.Value(call) && g.Positive {
							goesOn = false
						}
					}
					if !goesOn {
						continue // disengage returns when the helper answered false
					}
				}
			}
			if !(instrDominates(a.in, r) || mustPrecede(h, []ssa.Instruction{a.in}, r)) {
				return false
			}
		}
		return true
	}
	c.Check(before(drain, stopD), "C04-R2", "disengage:Drain-before-Stop", p.pos(stopCall.Pos()), "Tty.Drain() precedes Tty.Stop() on every path")
	okN := notify != nil && before(notify, stopD) && isNilConst(callCommon(notify.in).Args[0])
	c.Check(okN, "C04-R2", "disengage:NotifyResize(nil)-before-Stop", p.pos(stopCall.Pos()), "the resize callback is unregistered before Stop")
	c.Check(before(wait, stopD), "C04-R2", "disengage:join-before-Stop", p.pos(stopCall.Pos()), "both loops have exited before the Tty is stopped (no background I/O after Stop)")
	c.Check(before(closeStop, wait) && before(drain, wait), "C04-R2", "disengage:signal-before-join", p.pos(stopCall.Pos()), "stopQ is closed and the Tty drained before waiting for the loops")
	// all writes before Stop: nothing emitting is reachable after Stop in disengage, finalize, finish
	isWrite := func(in ssa.Instruction) bool {
		cc := callCommon(in)
		if cc == nil {
			return false
		}
		n := calleeName(cc)
		if strings.HasSuffix(n, "tScreen).TPuts") || strings.HasSuffix(n, "tScreen).writeString") || strings.HasSuffix(n, "tScreen).enableMouse") ||
			strings.HasSuffix(n, "tScreen).enablePasting") || strings.HasSuffix(n, "FocusReporting") || strings.HasSuffix(n, "tScreen).draw") {
			return true
		}
		return cc.IsInvoke() && typeName(cc.Value.Type()) == "tcell.Tty" && (cc.Method.Name() == "Write" || cc.Method.Name() == "Read")
	}
	late := []string{}
	eachInstr(disengage, func(in ssa.Instruction) {
		if isWrite(in) && reachableAfter(stopCall, in) {
			late = append(late, p.pos(in.Pos()))
		}
	})
	// in callers of disengage: anything emitting after the disengage call
	for _, fn := range p.modFns {
		if fn.Pkg != p.Tcell {
			continue
		}
		for _, call := range callsIn(fn, func(n string, cc *ssa.CallCommon) bool {
			return staticCallee(cc) == disengage || staticCallee(cc) == finalize
		}) {
			eachInstr(fn, func(in ssa.Instruction) {
				if isWrite(in) && reachableAfter(call, in) {
					late = append(late, fn.Name()+"@"+p.pos(in.Pos()))
				}
			})
		}
	}
	c.Check(len(late) == 0, "C04-R2", "no-write-after-Stop", p.pos(stopCall.Pos()), fmt.Sprintf("emissions reachable after Tty.Stop: %v", late))
	// Close: only in finalize, after the disengage call
	closers := []string{}
	for _, fn := range p.modFns {
		if fn.Pkg != p.Tcell || recvTypeName(topFunc(fn)) != "tcell.tScreen" {
			continue
		}
		eachInstr(fn, func(in ssa.Instruction) {
			cc := callCommon(in)
			if cc != nil && cc.IsInvoke() && typeName(cc.Value.Type()) == "tcell.Tty" && cc.Method.Name() == "Close" {
				closers = append(closers, fn.Name())
			}
		})
	}
	okClose := len(closers) == 1
	if okClose {
		okClose = false
		for _, call := range callsIn(finalize, func(n string, cc *ssa.CallCommon) bool { return staticCallee(cc) == disengage }) {
			if instrDominates(call, closeCall) {
				okClose = true
			}
		}
	}
	c.Check(okClose, "C04-R2", "Close:only-at-finalize-after-disengage", p.pos(closeCall.Pos()), fmt.Sprintf("functions calling Tty.Close: %v; dominated by the disengage call", closers))
	callersOf := func(target *ssa.Function) []string {
		var out []string
		for _, fn := range p.modFns {
			if fn.Pkg != p.Tcell || strings.Contains(fn.Synthetic, "bound") {
				continue
			}
			eachInstr(fn, func(in ssa.Instruction) {
				cc := callCommon(in)
				if cc == nil {
					return
				}
				if staticCallee(cc) == target {
					out = append(out, fn.Name())
				}
				if calleeName(cc) == "(*sync.Once).Do" && len(cc.Args) == 2 && boundTarget(cc.Args[1]) == target {
					out = append(out, fn.Name()+"(once)")
				}
			})
		}
		return out
	}
	fc := callersOf(finalize)
	okFin := len(fc) == 1
	var finish *ssa.Function
	if okFin && strings.HasSuffix(fc[0], "(once)") {
		// the function that closes the Tty is itself what the Once runs (no separate finalize step)
		finish = finalize
	} else if okFin {
		finish = p.Fn("tcell:(*tScreen)." + fc[0])
	}
	c.Check(okFin && finish != nil, "C04-R2", "finalize:single-caller", p.pos(finalize.Pos()), fmt.Sprintf("callers of %s: %v", finalize.Name(), fc))
	if finish != nil {
		cc2 := callersOf(finish)
		c.Check(len(cc2) == 1 && strings.HasSuffix(cc2[0], "(once)"), "C04-R2", "finish:only-through-Once", p.pos(finish.Pos()), fmt.Sprintf("callers of %s: %v", finish.Name(), cc2))
	}

	// ---- R3
	type reapply struct{ callee, field string }
	for _, ra := range []reapply{{"enableMouse", "mouseFlags"}, {"enablePasting", "pasteEnabled"}} {
		ok := false
		for _, d := range engDeep {
			cc := callCommon(d.in)
			if cc == nil || !strings.HasSuffix(calleeName(cc), "tScreen)."+ra.callee) || len(cc.Args) < 2 {
				continue
			}
			if ref, _, isF := loadedField(cc.Args[1]); isF && ref.Name == ra.field {
				ok = true
			}
		}
		c.Check(ok, "C04-R3", "engage:reapplies-"+ra.field, p.pos(engage.Pos()), ra.callee+"(t."+ra.field+") on Resume")
	}
	okFocus := false
	for _, d := range engDeep {
		isOn := false
		for _, id := range emitIdentsBound(p, d.in, d.bindVal) {
			if id == "call:enableFocusReporting" {
				isOn = true
			}
		}
		if !isOn {
			continue
		}
		for _, a := range d.atoms() {
			if a.L == "t.focusEnabled" && a.Op == "==" && a.R == "true" {
				okFocus = true
			}
		}
	}
	c.Check(okFocus, "C04-R3", "engage:reapplies-focus", p.pos(engage.Pos()), "focus reporting re-enabled iff t.focusEnabled")
	okTitle := false
	for _, d := range engDeep {
		for _, id := range emitIdents(p, d.in) {
			if id == "prepared:setTitle" {
				for _, a := range d.atoms() {
					if a.L == "t.title" && a.Op == "!=" && a.R == "\"\"" {
						okTitle = true
					}
				}
			}
		}
	}
	c.Check(okTitle, "C04-R3", "engage:reapplies-title", p.pos(engage.Pos()), "title re-emitted when one is set")
	// togglers
	type toggler struct {
		method, field, callee string
		value                 string // expected constant for both the store and the call ("" = parameter-derived)
	}
	for _, tg := range []toggler{
		{"EnableMouse", "mouseFlags", "enableMouse", ""}, {"DisableMouse", "mouseFlags", "enableMouse", "0"},
		{"EnablePaste", "pasteEnabled", "enablePasting", "true"}, {"DisablePaste", "pasteEnabled", "enablePasting", "false"},
		{"EnableFocus", "focusEnabled", "enableFocusReporting", "true"}, {"DisableFocus", "focusEnabled", "disableFocusReporting", "false"},
	} {
		fn := p.Fn("tcell:(*tScreen)." + tg.method)
		if fn == nil {
			c.Undecided("C04-R3", tg.method, "-", "not found")
			continue
		}
		sts, all := togglerView(p, fn, tg.field)
		var calls []tvSite
		for _, e := range all {
			if strings.HasPrefix(e.val, "call:"+tg.callee) {
				calls = append(calls, e)
			}
		}
		ok := len(sts) == 1 && len(calls) == 1
		detail := ""
		if ok {
			sv := sts[0].val
			detail = "stores " + sv
			if cv := calls[0].arg; cv != "" && strings.Contains(calls[0].val, "(") {
				detail += ", emits with " + cv
				if sv != cv {
					ok = false
				}
				if tg.value != "" && cv != tg.value {
					ok = false
				}
			}
			if tg.value != "" && sv != tg.value {
				ok = false
			}
			// both between Lock and Unlock: a Lock call precedes them
			if !sts[0].locked || !calls[0].locked {
				ok = false
				detail += ", not under the lock"
			}
		}
		c.Check(ok, "C04-R3", tg.method+":store+emit", p.pos(fn.Pos()), detail)
	}
	if st := p.Fn("tcell:(*tScreen).SetTitle"); st != nil {
		okS := len(storesTo(st, "tcell.tScreen", "title")) == 1
		okE := false
		eachInstr(st, func(in ssa.Instruction) {
			for _, id := range emitIdents(p, in) {
				if id == "prepared:setTitle" {
					okE = true
				}
			}
		})
		c.Check(okS && okE, "C04-R3", "SetTitle:store+emit", p.pos(st.Pos()), "title stored for Resume and emitted")
	}
	checkMouseOffUnconditional(c, p, "C04-R8")
	for _, tg := range []struct{ m, f string }{{"EnableMouse", "mouseFlags"}, {"DisableMouse", "mouseFlags"}, {"EnablePaste", "pasteEnabled"}, {"DisablePaste", "pasteEnabled"}, {"EnableFocus", "focusEnabled"}, {"DisableFocus", "focusEnabled"}} {
		fn := p.Fn("tcell:(*tScreen)." + tg.m)
		if fn == nil {
			continue
		}
		bad, n := "", 0
		sts, _ := togglerView(p, fn, tg.f)
		for _, st := range sts {
			n++
			for _, a := range st.d.atoms() {
				if strings.HasPrefix(a.L, "t.") {
					bad += "the store depends on " + a.String() + "; "
				}
			}
		}
		c.Check(n == 1 && bad == "", "C04-R8", tg.m+":remembers-unconditionally", p.pos(fn.Pos()), fmt.Sprintf("%d store(s) of t.%s, under no condition on the screen's state %s", n, tg.f, bad))
	}
	// R6: a mode toggled on a screen that is not running is remembered, not emitted: the write would go
	// to a stopped Tty, and Fini's teardown (which returns at once on a screen that is not running)
	// would never switch the mode off again; engage applies the remembered modes
	for _, m := range []string{"EnableMouse", "DisableMouse", "EnablePaste", "DisablePaste", "EnableFocus", "DisableFocus", "SetTitle"} {
		fn := p.Fn("tcell:(*tScreen)." + m)
		if fn == nil {
			c.Undecided("C04-R6", m, "-", "not found")
			continue
		}
		n, bad := 0, ""
		_, ems := togglerView(p, fn, "")
		for _, e := range ems {
			n++
			gated := false
			for _, a := range e.d.atoms() {
				if a.L == "t.running" && ((a.Op == "==" && a.R == "true") || (a.Op == "!=" && a.R == "false")) {
					gated = true
				}
			}
			if !gated {
				bad += "emission at " + p.pos(e.d.in.Pos()) + " is not behind the running test; "
			}
		}
		c.Check(n > 0 && bad == "", "C04-R6", m+":emits-only-while-running", p.pos(fn.Pos()), fmt.Sprintf("%d emission(s), each only on a running screen %s", n, bad))
	}
	if osc := p.Fn("tcell:(*tScreen).prepareExtendedOSC"); osc != nil {
		checkPairedAssignment(c, p, osc, "C04-R5", "tcell.tScreen", "enableFocus", "disableFocus")
		checkPairedAssignment(c, p, osc, "C04-R5", "tcell.tScreen", "saveTitle", "restoreTitle")
	} else {
		c.Undecided("C04-R5", "prepareExtendedOSC", "-", "not found")
	}
	{
		// the title stack: push (save) before the application's title is written
		var save, set ssa.Instruction
		var saveIn, setIn ssa.Instruction
		for _, d := range engDeep {
			for _, id := range emitIdents(p, d.in) {
				if id == "prepared:saveTitle" {
					save, saveIn = d.anchor, d.in
				}
				if id == "prepared:setTitle" {
					set, setIn = d.anchor, d.in
				}
			}
		}
		// both inside one helper: the order is the helper's own
		if save != nil && save == set && saveIn.Parent() == setIn.Parent() {
			save, set = saveIn, setIn
		}
		ok := save != nil && set != nil && !reachableAfter(set, save) && reachableAfter(save, set)
		c.Check(ok, "C04-R5", "engage:title-saved-before-set", p.pos(engage.Pos()), "the terminal's title is pushed on its title stack before the application's title is written (otherwise the restore at exit brings back the application's own title)")
	}
	checkRememberedModes(c, p, "C04-R4", "tScreen", []string{"mouseFlags", "pasteEnabled", "focusEnabled", "title", "cursorStyle", "cursorColor"}, []string{"Suspend", "Resume", "Fini", "engage", "disengage"})
	_ = token.NoPos
}

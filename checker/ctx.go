package main

import (
	"encoding/json"
	"fmt"
	"os"
	"path/filepath"
	"sort"
	"strings"
	"time"
)

// Obligation is one rule instance examined on this run.
type Obligation struct {
	Rule      string `json:"rule"`      // e.g. C10-R1
	Construct string `json:"construct"` // what in the code the instance is about
	OK        bool   `json:"ok"`
	Kind      string `json:"kind,omitempty"` // "violation" | "undecided"
	Pos       string `json:"pos,omitempty"`
	Detail    string `json:"detail,omitempty"`
	Config    string `json:"config,omitempty"`
	Trivial   bool   `json:"-"`
}

func (o Obligation) Key() string { return o.Rule + ":" + printableKey(o.Construct) }

// printableKey: constructs may quote string constants of the code (escape sequences); control bytes
// are written as \xNN so that keys can be printed, stored in JSON and compared as text.
func printableKey(s string) string {
	clean := true
	for i := 0; i < len(s); i++ {
		if s[i] < 0x20 || s[i] == 0x7f {
			clean = false
			break
		}
	}
	if clean {
		return s
	}
	var b strings.Builder
	for i := 0; i < len(s); i++ {
		if s[i] < 0x20 || s[i] == 0x7f {
			fmt.Fprintf(&b, "\\x%02x", s[i])
		} else {
			b.WriteByte(s[i])
		}
	}
	return b.String()
}

// KnownFinding is one entry of /verif/known_findings.json.
type KnownFinding struct {
	Property string `json:"property"`
	Key      string `json:"key"`
	Status   string `json:"status"` // known | fixed
	Commit   string `json:"commit,omitempty"`
	What     string `json:"what"`
	Witness  string `json:"witness,omitempty"`
}

// Ctx carries the state of checking one property.
type Ctx struct {
	Prop     string
	Tier     string
	Repo     string
	VerifDir string
	start    time.Time

	progs    map[string]*Prog
	progErrs map[string]error

	Obls        []Obligation
	ruleCounts  map[string]int
	expectMin   map[string]int
	ruleText    map[string]string
	assumptions []string
	exceptions  []string
	notes       []string
	extra       map[string]interface{}
	curCfg      string
}

func newCtx(prop, tier, repo, verif string) *Ctx {
	return &Ctx{Prop: prop, Tier: tier, Repo: repo, VerifDir: verif, start: time.Now(),
		progs: map[string]*Prog{}, progErrs: map[string]error{},
		ruleCounts: map[string]int{}, expectMin: map[string]int{}, ruleText: map[string]string{},
		extra: map[string]interface{}{}, curCfg: "linux"}
}

var progCache = map[string]*Prog{}
var progCacheErr = map[string]error{}

// P loads (once per process) the program for a configuration.
func (c *Ctx) P(cfg string) *Prog {
	key := c.Repo + "|" + cfg
	if p, ok := progCache[key]; ok {
		return p
	}
	if _, ok := progCacheErr[key]; ok {
		return nil
	}
	p, err := loadProg(c.Repo, configs[cfg])
	if err != nil {
		progCacheErr[key] = err
		c.Undecided("LOAD", "config "+cfg, "-", err.Error())
		return nil
	}
	progCache[key] = p
	return p
}

// Rule registers the text of a rule (printed in the evidence).
func (c *Ctx) Rule(id, text string) { c.ruleText[id] = text }

// Expect states the minimum number of instances a rule must examine.
func (c *Ctx) Expect(rule string, min int) { c.expectMin[rule] = min }

func (c *Ctx) add(o Obligation) {
	o.Config = c.curCfg
	c.Obls = append(c.Obls, o)
	c.ruleCounts[o.Rule]++
}

// OK records a discharged instance.
func (c *Ctx) OK(rule, construct, pos, detail string) {
	c.add(Obligation{Rule: rule, Construct: construct, OK: true, Pos: pos, Detail: detail})
}

// Trivial records an instance that holds because the guarded construct does not occur.
func (c *Ctx) Trivial(rule, construct, pos, detail string) {
	c.add(Obligation{Rule: rule, Construct: construct, OK: true, Pos: pos, Detail: detail, Trivial: true})
}

// Fail records a violated instance.
func (c *Ctx) Fail(rule, construct, pos, detail string) {
	c.add(Obligation{Rule: rule, Construct: construct, OK: false, Kind: "violation", Pos: pos, Detail: detail})
}

// Undecided records an instance the checker could not decide (fails closed).
func (c *Ctx) Undecided(rule, construct, pos, detail string) {
	c.add(Obligation{Rule: rule, Construct: construct, OK: false, Kind: "undecided", Pos: pos, Detail: detail})
}

// Check records ok or fail.
func (c *Ctx) Check(ok bool, rule, construct, pos, detail string) bool {
	if ok {
		c.OK(rule, construct, pos, detail)
	} else {
		c.Fail(rule, construct, pos, detail)
	}
	return ok
}

func (c *Ctx) Assume(s string)    { c.assumptions = append(c.assumptions, s) }
func (c *Ctx) Exception(s string) { c.exceptions = append(c.exceptions, s) }
func (c *Ctx) Note(s string)      { c.notes = append(c.notes, s) }

func loadKnown(verif string) ([]KnownFinding, error) {
	b, err := os.ReadFile(filepath.Join(verif, "known_findings.json"))
	if err != nil {
		if os.IsNotExist(err) {
			return nil, nil
		}
		return nil, err
	}
	var kf []KnownFinding
	if err := json.Unmarshal(b, &kf); err != nil {
		return nil, err
	}
	return kf, nil
}

// finish checks instance counts, matches known findings, writes the report
// and the evidence, prints the verdict and returns the exit code.
func (c *Ctx) finish(level, explanation string, writeEvidence bool) int {
	// a rule matching fewer sites than confirmed by hand must not pass vacuously
	rules := make([]string, 0, len(c.expectMin))
	for r := range c.expectMin {
		rules = append(rules, r)
	}
	sort.Strings(rules)
	for _, r := range rules {
		if c.ruleCounts[r] < c.expectMin[r] {
			c.Undecided(r, "instance-count", "-", fmt.Sprintf("rule examined %d instances, expected at least %d: anchors not found", c.ruleCounts[r], c.expectMin[r]))
		}
	}
	known, kerr := loadKnown(c.VerifDir)
	if kerr != nil {
		c.Undecided("KNOWN", "known_findings.json", "-", kerr.Error())
	}
	knownKeys := map[string]KnownFinding{}
	for _, k := range known {
		if k.Property == c.Prop && k.Status == "known" {
			knownKeys[k.Key] = k
		}
	}
	var viol []Obligation
	var knownHit []Obligation
	seen := map[string]bool{}
	nOK := 0
	distinct := map[string]bool{}
	for _, o := range c.Obls {
		if o.OK {
			nOK++
			if !o.Trivial {
				distinct[o.Key()] = true
			}
			continue
		}
		distinct[o.Key()] = true
		if seen[o.Key()+"|"+o.Config] {
			continue
		}
		seen[o.Key()+"|"+o.Config] = true
		if _, ok := knownKeys[o.Key()]; ok && o.Kind == "violation" {
			knownHit = append(knownHit, o)
		} else {
			viol = append(viol, o)
		}
	}
	wall := time.Since(c.start).Seconds()
	fmt.Printf("== %s tier=%s: %d rule instances, %d ok, %d known findings, %d violations (%.1fs)\n",
		c.Prop, c.Tier, len(c.Obls), nOK, len(knownHit), len(viol), wall)
	rids := make([]string, 0, len(c.ruleCounts))
	for r := range c.ruleCounts {
		rids = append(rids, r)
	}
	sort.Strings(rids)
	for _, r := range rids {
		fmt.Printf("   %-10s %4d instances  %s\n", r, c.ruleCounts[r], firstLine(c.ruleText[r]))
	}
	if verbose != nil && *verbose {
		for _, o := range c.Obls {
			st := "ok  "
			if !o.OK {
				st = "FAIL"
			} else if o.Trivial {
				st = "triv"
			}
			fmt.Printf("     %s [%s] %s @%s  %s\n", st, o.Config, o.Key(), o.Pos, o.Detail)
		}
	}
	printedKnown := map[string]bool{}
	for _, o := range knownHit {
		if printedKnown[o.Key()] {
			continue
		}
		printedKnown[o.Key()] = true
		fmt.Printf("KNOWN-FINDING: property=%s %s [%s at %s]\n", c.Prop, knownKeys[o.Key()].What, o.Key(), o.Pos)
	}
	reportPath := filepath.Join(c.VerifDir, "reports", fmt.Sprintf("%s.%s.json", c.Prop, c.Tier))
	if len(viol) > 0 {
		for _, o := range viol {
			fmt.Printf("FINDING %s [%s] %s at %s (%s): %s\n", o.Kind, o.Config, o.Key(), o.Pos, c.ruleText[o.Rule], o.Detail)
		}
		_ = os.MkdirAll(filepath.Dir(reportPath), 0o755)
		rep := map[string]interface{}{
			"property": c.Prop, "tier": c.Tier, "repo": c.Repo,
			"violations": viol,
			"replay":     fmt.Sprintf("%s/bin/tcellvet -prop %s -tier %s -replay %s", c.VerifDir, c.Prop, c.Tier, reportPath),
		}
		b, _ := json.MarshalIndent(rep, "", " ")
		_ = os.WriteFile(reportPath, b, 0o644)
	}
	if writeEvidence {
		c.writeEvidence(level, explanation, nOK, len(distinct), len(viol), knownHit, wall)
	}
	if len(viol) > 0 {
		fmt.Printf("VIOLATION property=%s replay=%s\n", c.Prop, reportPath)
		return 1
	}
	fmt.Printf("PASS property=%s\n", c.Prop)
	return 0
}

func firstLine(s string) string {
	if i := strings.IndexByte(s, '\n'); i >= 0 {
		return s[:i]
	}
	return s
}

func (c *Ctx) writeEvidence(level, explanation string, nOK, distinct, nviol int, knownHit []Obligation, wall float64) {
	seed := 0
	fmt.Sscanf(os.Getenv("VERIF_SEED"), "%d", &seed)
	// samples: a few obligations per rule, written out
	samples := []interface{}{}
	perRule := map[string]int{}
	for _, o := range c.Obls {
		if o.Trivial && o.OK {
			continue
		}
		if perRule[o.Rule] >= 2 {
			continue
		}
		perRule[o.Rule]++
		samples = append(samples, map[string]interface{}{
			"rule": o.Rule, "construct": o.Construct, "at": o.Pos, "ok": o.OK, "detail": o.Detail, "config": o.Config,
		})
	}
	ruleTable := map[string]interface{}{}
	for r, n := range c.ruleCounts {
		ruleTable[r] = map[string]interface{}{"instances": n, "min_expected": c.expectMin[r], "text": c.ruleText[r]}
	}
	cfgs := []interface{}{}
	nfn, nbl := 0, 0
	keys := make([]string, 0, len(progCache))
	for k := range progCache {
		keys = append(keys, k)
	}
	sort.Strings(keys)
	for _, k := range keys {
		p := progCache[k]
		if !strings.HasPrefix(k, c.Repo+"|") {
			continue
		}
		cfgs = append(cfgs, map[string]interface{}{"config": p.Cfg.Name, "goos": p.Cfg.GOOS, "goarch": p.Cfg.GOARCH, "tags": p.Cfg.Tags,
			"module_packages": len(p.Pkgs), "functions": len(p.modFns), "blocks": p.nBlocks, "type_errors": len(p.TypeErrors)})
		nfn += len(p.modFns)
		nbl += p.nBlocks
	}
	kh := []string{}
	for _, o := range knownHit {
		kh = append(kh, o.Key())
	}
	cov := map[string]interface{}{
		"explanation":         explanation,
		"obligations":         len(c.Obls),
		"discharged":          nOK,
		"evaluations":         len(c.Obls),
		"distinct_nontrivial": distinct,
		"rule":                "one evaluation = one rule instance (rule id + code construct) examined on the resolved program of /repo's current tree; distinct = distinct rule+construct keys; non-trivial = the guarded construct actually occurs in the code (instances that hold because nothing is there to constrain are excluded)",
		"samples":             samples,
		"rules":               ruleTable,
		"configurations":      cfgs,
		"functions_analysed":  nfn,
		"blocks_analysed":     nbl,
		"exceptions":          c.exceptions,
		"known_findings_hit":  kh,
		"notes":               c.notes,
		"checker_cmd":         fmt.Sprintf("bin/tcellvet -prop %s -tier %s", c.Prop, c.Tier),
		"trusted_base":        []string{"go/types and go/ssa of golang.org/x/tools v0.29.0", "the rule templates and reference tables in /verif/checker"},
	}
	for k, v := range c.extra {
		cov[k] = v
	}
	ev := map[string]interface{}{
		"property_id": c.Prop,
		"tier":        c.Tier,
		"seed":        seed,
		"level":       level,
		"coverage":    cov,
		"assumptions": nonNil(c.assumptions),
		"wall_s":      wall,
		"violations":  nviol,
	}
	b, _ := json.MarshalIndent(ev, "", " ")
	dir := filepath.Join(c.VerifDir, "evidence")
	_ = os.MkdirAll(dir, 0o755)
	_ = os.WriteFile(filepath.Join(dir, c.Prop+".json"), b, 0o644)
}

func nonNil(s []string) []string {
	if s == nil {
		return []string{}
	}
	return s
}

// asRule runs f and files the obligations it records under rule `to` instead
// of `from` (for rules shared between properties).
func (c *Ctx) asRule(from, to string, f func()) {
	n0 := len(c.Obls)
	f()
	for i := n0; i < len(c.Obls); i++ {
		if c.Obls[i].Rule == from {
			c.Obls[i].Rule = to
			c.ruleCounts[from]--
			c.ruleCounts[to]++
		}
	}
	if c.ruleCounts[from] == 0 {
		delete(c.ruleCounts, from)
	}
}

package main

import (
	"fmt"
	"go/token"
	"go/types"
	"sort"
	"strings"

	"golang.org/x/tools/go/ssa"
)

// ---------------------------------------------------------------------------
// C02-R9: what a parser consumes is exactly what it matched.
//
// A parser that answers "complete" removes bytes from the buffer.  The number
// of bytes removed must be the length of the sequence it matched: one byte
// fewer leaves the tail of the sequence to be decoded as keys, one byte more
// swallows the byte that follows (and does so only if that byte is already in
// the buffer, i.e. depending on how the stream was split).  The recognised
// consumption idioms, each tied to the match:
//
//   fixed      k straight-line ReadByte calls in a block reached only with the
//              scan index at k-1 (small abstract interpretation of the
//              parser's state machine over (state, index) pairs), or, outside
//              any scan loop, k == 1 after looking at b[0] only
//   countdown  for i >= 0 { ReadByte; i-- } with i the scan index of the match
//   prefix     for i := 0; i < len(P); i++ { ReadByte } under HasPrefix(b, P)
//   decoder    for n > 0 { ReadByte; n-- } with n the nSrc result of Transform
//   delimiter  ReadBytes(d) where the byte just examined equals d
// ---------------------------------------------------------------------------

func c02Consumption(c *Ctx, p *Prog, pi *parserInfo) {
	fn := pi.fn
	name := fn.Name()
	loops := loopsOf(fn)
	// group consumption sites by block
	byBlock := map[*ssa.BasicBlock][]ssa.Instruction{}
	var blocks []*ssa.BasicBlock
	for _, s := range pi.consume {
		if _, ok := byBlock[s.Block()]; !ok {
			blocks = append(blocks, s.Block())
		}
		byBlock[s.Block()] = append(byBlock[s.Block()], s)
	}
	sort.Slice(blocks, func(i, j int) bool { return blocks[i].Index < blocks[j].Index })
	if len(blocks) == 0 {
		c.Undecided("C02-R9", name+":consumes-match", p.pos(fn.Pos()), "no consumption site")
		return
	}
	input := parserInput(pi)
	for n, b := range blocks {
		sites := byBlock[b]
		key := fmt.Sprintf("%s:consumes-match#%d", name, n+1)
		pos := p.pos(sites[0].Pos())
		cc := callCommon(sites[0])
		m := strings.TrimPrefix(calleeName(cc), "(*bytes.Buffer).")
		var nextArg ssa.Value
		if m == "Next" && len(cc.Args) == 2 {
			nextArg = cc.Args[1]
		}
		if cnt, viaHelper := pi.helperCount[sites[0]]; viaHelper {
			m, nextArg = "Next", cnt // the helper removes exactly that many bytes
		}
		// delimiter idiom
		if m == "ReadBytes" {
			d, ok := constInt(cc.Args[1])
			good := ok && len(sites) == 1 && currentByteEquals(b, input, d)
			c.Check(good, "C02-R9", key, pos, fmt.Sprintf("ReadBytes(%#x) on the path where the byte just examined equals the delimiter", d))
			continue
		}
		// buf.Next(n): the same idioms with the count as one expression instead of a ReadByte loop
		nextConst := -1
		if m == "Next" && len(sites) == 1 && nextArg != nil {
			n := nextArg
			switch {
			case func() bool { _, ok := constInt(n); return ok }():
				k, _ := constInt(n)
				nextConst = int(k) // checked below like k straight-line ReadByte calls
			case func() bool { // scan index + 1: the whole matched sequence
				bo, ok := n.(*ssa.BinOp)
				if !ok || bo.Op != token.ADD {
					return false
				}
				k, isK := constInt(bo.Y)
				return isK && k == 1 && (isRangeIndexOver(bo.X, input) || isRangeIndexValue(bo.X, input))
			}():
				c.OK("C02-R9", key, pos, "Next(scan index + 1): the whole matched sequence")
				continue
			case examinedUpTo(fn, input, b, n, sites[0]):
				c.OK("C02-R9", key, pos, "Next(base+k) where input[base+k-1] is the last byte examined: the matched sequence")
				continue
			case func() bool { // len(P)+k under HasPrefix(input, P), the k bytes after the prefix having been looked at
				pb, k := linBase(n)
				call, ok := pb.(*ssa.Call)
				if !ok || k < 1 {
					return false
				}
				bi, isB := call.Call.Value.(*ssa.Builtin)
				if !isB || bi.Name() != "len" {
					return false
				}
				pfx := call.Call.Args[0]
				under := false
				for _, g := range rawGuardsAt(b) {
					if gc, okC := g.Cond.(*ssa.Call); okC && g.Positive && (calleeName(&gc.Call) == "bytes.HasPrefix") && len(gc.Call.Args) == 2 && sliceRoot(gc.Call.Args[0]) == input && sameValue(gc.Call.Args[1], pfx) {
						if _, isSl := gc.Call.Args[0].(*ssa.Slice); !isSl {
							under = true
						}
					}
				}
				if !under {
					return false
				}
				// input[len(P)+j] examined on the way, for every j < k, and nothing beyond
				seen := map[int64]bool{}
				beyond := false
				eachInstr(fn, func(in ssa.Instruction) {
					ia, isIA := in.(*ssa.IndexAddr)
					if !isIA || ia.X != input || !in.Block().Dominates(b) {
						return
					}
					ib, off := linBase(ia.Index)
					if ib != nil && sameValue(ib, pb) {
						if off >= k {
							beyond = true
						}
						seen[off] = true
					}
				})
				for j := int64(0); j < k; j++ {
					if !seen[j] {
						return false
					}
				}
				return !beyond
			}():
				c.OK("C02-R9", key, pos, "Next(len(P)+k) under HasPrefix(input, P), after looking at the k bytes that follow the prefix")
				continue
			case func() bool { // len(P) + i + 1 under HasPrefix(input, P), i the scan index over input[len(P):]
				bo, ok := n.(*ssa.BinOp)
				if !ok || bo.Op != token.ADD {
					return false
				}
				if k, isK := constInt(bo.Y); !isK || k != 1 {
					return false
				}
				sum, ok := bo.X.(*ssa.BinOp)
				if !ok || sum.Op != token.ADD {
					return false
				}
				for _, pair := range [][2]ssa.Value{{sum.X, sum.Y}, {sum.Y, sum.X}} {
					lenCall, isCall := pair[0].(*ssa.Call)
					if !isCall {
						continue
					}
					bi, isB := lenCall.Call.Value.(*ssa.Builtin)
					if !isB || bi.Name() != "len" {
						continue
					}
					pfx := lenCall.Call.Args[0]
					// the scan runs over what follows the prefix
					var rest *ssa.Slice
					eachInstr(fn, func(in ssa.Instruction) {
						if sl, isSl := in.(*ssa.Slice); isSl && sl.X == input && sl.High == nil && sl.Low != nil {
							if lc, isLC := sl.Low.(*ssa.Call); isLC {
								if b2, isB2 := lc.Call.Value.(*ssa.Builtin); isB2 && b2.Name() == "len" && sameValue(lc.Call.Args[0], pfx) {
									rest = sl
								}
							}
						}
					})
					if rest == nil || !(isRangeIndexOver(pair[1], input) || isRangeIndexValue(pair[1], input)) {
						continue
					}
					// … over exactly that rest: the index is bounded by len(rest)
					overRest := false
					for _, r := range referrers(pair[1]) {
						if cmp, isCmp := r.(*ssa.BinOp); isCmp && cmp.Op == token.LSS && cmp.X == pair[1] {
							if lc, isLC := cmp.Y.(*ssa.Call); isLC && len(lc.Call.Args) == 1 && lc.Call.Args[0] == ssa.Value(rest) {
								overRest = true
							}
						}
					}
					if !overRest {
						continue
					}
					for _, g := range rawGuardsAt(b) {
						if gc, okC := g.Cond.(*ssa.Call); okC && g.Positive && calleeName(&gc.Call) == "bytes.HasPrefix" && len(gc.Call.Args) == 2 && sliceRoot(gc.Call.Args[0]) == input && sameValue(gc.Call.Args[1], pfx) {
							if _, isSl := gc.Call.Args[0].(*ssa.Slice); !isSl {
								return true
							}
						}
					}
				}
				return false
			}():
				c.OK("C02-R9", key, pos, "Next(len(P) + scan index + 1) under HasPrefix(input, P), the scan running over input[len(P):]: the prefix and everything up to the byte just examined")
				continue
			case func() bool { // len(P) under HasPrefix(input, P)
				call, ok := n.(*ssa.Call)
				if !ok {
					return false
				}
				bi, isB := call.Call.Value.(*ssa.Builtin)
				if !isB || bi.Name() != "len" {
					return false
				}
				pfx := call.Call.Args[0]
				for _, g := range rawGuardsAt(b) {
					if gc, okC := g.Cond.(*ssa.Call); okC && g.Positive && (calleeName(&gc.Call) == "bytes.HasPrefix") && len(gc.Call.Args) == 2 && sliceRoot(gc.Call.Args[0]) == input && sameValue(gc.Call.Args[1], pfx) {
						if _, isSl := gc.Call.Args[0].(*ssa.Slice); !isSl {
							return true
						}
					}
				}
				return false
			}():
				c.OK("C02-R9", key, pos, "Next(len(P)) under HasPrefix(input, P)")
				continue
			case isTransformNSrc(n, 0):
				// decoder count, with the progress condition: used only where the decoder produced output
				produced := false
				if ex, isEx := n.(*ssa.Extract); isEx {
					for _, g := range rawGuardsAt(b) {
						if bo, okB := g.Cond.(*ssa.BinOp); okB {
							if e0, okE := bo.X.(*ssa.Extract); okE && e0.Index == 0 && e0.Tuple == ex.Tuple {
								if k, isK := constInt(bo.Y); isK && k == 0 && ((bo.Op == token.NEQ && g.Positive) || (bo.Op == token.EQL && !g.Positive) || (bo.Op == token.GTR && g.Positive)) {
									produced = true
								}
							}
						}
					}
				}
				// the count may come back from a helper that runs the decoder: there, every return that
				// hands out the decoder's count lies behind "the decoder produced output"
				if ex, isEx := n.(*ssa.Extract); isEx && !produced {
					if call, isCall := ex.Tuple.(*ssa.Call); isCall {
						if h := call.Call.StaticCallee(); h != nil && h.Pkg == fn.Pkg && len(h.Blocks) > 0 {
							all, some := true, false
							for _, r := range returnsOf(h) {
								res := derefCell(resultOf(r, ex.Index))
								if k, isK := constInt(res); isK && k == 0 {
									continue
								}
								cnt, isCnt := res.(*ssa.Extract)
								if !isCnt {
									all = false
									continue
								}
								some = true
								okR := false
								for _, g := range rawGuardsAt(r.Block()) {
									if bo, okB := g.Cond.(*ssa.BinOp); okB {
										if e0, okE := bo.X.(*ssa.Extract); okE && e0.Index == 0 && e0.Tuple == cnt.Tuple {
											if k, isK := constInt(bo.Y); isK && k == 0 && ((bo.Op == token.NEQ && g.Positive) || (bo.Op == token.EQL && !g.Positive) || (bo.Op == token.GTR && g.Positive)) {
												okR = true
											}
										}
									}
								}
								if !okR {
									all = false
								}
							}
							produced = all && some
						}
					}
				}
				c.Check(produced, "C02-R9", key, pos, "Next(nSrc): as many bytes as the decoder reports consumed, where it produced output")
				continue
			default:
				c.Undecided("C02-R9", key, pos, "consumption through Next("+valName(n)+") is not a recognised idiom")
				continue
			}
		} else if m != "ReadByte" {
			c.Undecided("C02-R9", key, pos, "consumption through "+m+" is not a recognised idiom")
			continue
		}
		// is the site in a consumption loop (a loop that is not the scan loop over the input)?
		var loopHdr *ssa.BasicBlock
		for h, body := range loops {
			if body[b] && !isScanLoop(h, input) {
				if loopHdr == nil || len(body) < len(loops[loopHdr]) {
					loopHdr = h
				}
			}
		}
		if loopHdr != nil {
			kind, detail := classifyConsumeLoop(loopHdr, loops[loopHdr], input, len(sites))
			if kind == "" {
				c.Fail("C02-R9", key, pos, "consumption loop is not tied to the match: "+detail)
			} else {
				c.OK("C02-R9", key, pos, kind+": "+detail)
			}
			continue
		}
		// fixed number of reads
		k := len(sites)
		if nextConst >= 0 {
			k = nextConst
		}
		// bytes a parser removes without a decoder's say-so were recognised as something: an
		// event is appended on the same path (dropping input silently is not a parser's business)
		{
			withEvent := false
			for _, e := range pi.effects {
				if st, ok := e.(*ssa.Store); ok && st.Addr == ssa.Value(pi.evsPrm) {
					if instrDominates(e, sites[0]) || (e.Block() == b) || reachableAfter(sites[len(sites)-1], e) && e.Block().Dominates(b) {
						withEvent = true
					}
				}
			}
			if !withEvent {
				c.Fail("C02-R9", key+":with-event", pos, fmt.Sprintf("%d byte(s) are removed from the input on a path that delivers no event and asks no decoder", k))
			}
		}
		scanHdr := enclosingScanLoop(b, loops, input)
		if scanHdr == nil {
			// outside any scan loop: only constant indices below k may have been examined
			maxIdx, ok := maxConstIndexExamined(b, input)
			c.Check(ok && int(maxIdx)+1 == k, "C02-R9", key, pos, fmt.Sprintf("%d byte(s) read after examining the input up to constant index %d", k, maxIdx))
			continue
		}
		idxs, why := scanIndexAt(scanHdr, b)
		if idxs == nil {
			c.Undecided("C02-R9", key, pos, "cannot bound the scan index at the consumption site: "+why)
			continue
		}
		good := true
		for _, i := range idxs {
			if i+1 != k {
				good = false
			}
		}
		c.Check(good, "C02-R9", key, pos, fmt.Sprintf("%d byte(s) read; the match can end at scan index %v (the sequence is index+1 bytes long)", k, idxs))
	}
}

// parserInput: the value of buf.Bytes() in a parser.
func parserInput(pi *parserInfo) ssa.Value {
	var out ssa.Value
	eachInstr(pi.fn, func(in ssa.Instruction) {
		if call, ok := in.(*ssa.Call); ok && calleeName(&call.Call) == "(*bytes.Buffer).Bytes" && len(call.Call.Args) == 1 && call.Call.Args[0] == ssa.Value(pi.bufPrm) {
			if out == nil {
				out = call
			}
		}
	})
	return out
}

// sliceRoot follows reslices (and phis that only merge reslices of the same root).
func sliceRoot(v ssa.Value) ssa.Value {
	return sliceRootSeen(v, map[ssa.Value]bool{})
}

func sliceRootSeen(v ssa.Value, seen map[ssa.Value]bool) ssa.Value {
	for v != nil && !seen[v] {
		seen[v] = true
		switch x := v.(type) {
		case *ssa.Slice:
			v = x.X
			continue
		case *ssa.Phi:
			var r ssa.Value
			same := true
			for _, e := range x.Edges {
				if e == ssa.Value(x) || seen[e] {
					continue // a loop-carried reslice of the same thing
				}
				er := sliceRootSeen(e, seen)
				if er == ssa.Value(x) {
					continue
				}
				if r == nil {
					r = er
				} else if r != er {
					same = false
				}
			}
			if same && r != nil {
				return r
			}
			return v
		}
		break
	}
	return v
}

// isScanLoop: header of a `for i := range <input>` loop.
func isScanLoop(h *ssa.BasicBlock, input ssa.Value) bool {
	return scanIndexOf(h, input) != nil
}

// scanIndexOf returns the index value (phi+1) of a range loop over (a reslice of) the input.
func scanIndexOf(h *ssa.BasicBlock, input ssa.Value) ssa.Value {
	for _, in := range h.Instrs {
		bo, ok := in.(*ssa.BinOp)
		if !ok || !isRangeIndex(bo) {
			continue
		}
		// the bound: i < len(x) with x rooted at the input
		for _, r := range referrers(bo) {
			cmp, ok := r.(*ssa.BinOp)
			if !ok || cmp.Op != token.LSS || cmp.X != ssa.Value(bo) {
				continue
			}
			if call, ok := cmp.Y.(*ssa.Call); ok {
				if bi, ok := call.Call.Value.(*ssa.Builtin); ok && bi.Name() == "len" && sliceRoot(call.Call.Args[0]) == input {
					return bo
				}
			}
		}
	}
	return nil
}

func enclosingScanLoop(b *ssa.BasicBlock, loops map[*ssa.BasicBlock]map[*ssa.BasicBlock]bool, input ssa.Value) *ssa.BasicBlock {
	var best *ssa.BasicBlock
	for h, body := range loops {
		if isScanLoop(h, input) && (body[b] || h.Dominates(b)) {
			if best == nil || len(body) < len(loops[best]) {
				best = h
			}
		}
	}
	return best
}

// currentByteEquals: block b is dominated by a test `input[i] == d` (true edge).
func currentByteEquals(b *ssa.BasicBlock, input ssa.Value, d int64) bool {
	for _, g := range rawGuardsAt(b) {
		bo, ok := g.Cond.(*ssa.BinOp)
		if !ok {
			continue
		}
		var other ssa.Value
		if k, ok := constInt(bo.Y); ok && k == d {
			other = bo.X
		} else if k, ok := constInt(bo.X); ok && k == d {
			other = bo.Y
		} else {
			continue
		}
		if !((bo.Op == token.EQL && g.Positive) || (bo.Op == token.NEQ && !g.Positive)) {
			continue
		}
		if isElementOf(other, input) {
			return true
		}
	}
	return false
}

// isElementOf: v is a byte loaded from (a reslice of) the input, or the range value of a loop over it.
func isElementOf(v ssa.Value, input ssa.Value) bool {
	v = stripConv(v)
	if u, ok := v.(*ssa.UnOp); ok && u.Op == token.MUL {
		if ia, ok := u.X.(*ssa.IndexAddr); ok {
			return sliceRoot(ia.X) == input
		}
	}
	return false
}

// maxConstIndexExamined: all loads of input elements that dominate block b use
// constant indices; returns the largest.
func maxConstIndexExamined(b *ssa.BasicBlock, input ssa.Value) (int64, bool) {
	max := int64(-1)
	ok := true
	eachInstr(b.Parent(), func(in ssa.Instruction) {
		ia, isIA := in.(*ssa.IndexAddr)
		if !isIA || sliceRoot(ia.X) != input {
			return
		}
		if !(in.Block().Dominates(b)) {
			return
		}
		if _, isSl := ia.X.(*ssa.Slice); isSl {
			ok = false // index into a reslice: offset unknown
			return
		}
		k, isC := constInt(ia.Index)
		if !isC {
			ok = false
			return
		}
		if k > max {
			max = k
		}
	})
	return max, ok && max >= 0
}

// classifyConsumeLoop recognises the countdown / prefix / decoder idioms.
func classifyConsumeLoop(h *ssa.BasicBlock, body map[*ssa.BasicBlock]bool, input ssa.Value, readsPerIter int) (kind, detail string) {
	if readsPerIter != 1 {
		return "", fmt.Sprintf("%d reads per iteration", readsPerIter)
	}
	underHasPrefix := func(pfx ssa.Value) bool {
		for _, g := range rawGuardsAt(h) {
			if gc, ok := g.Cond.(*ssa.Call); ok && g.Positive && calleeName(&gc.Call) == "bytes.HasPrefix" && len(gc.Call.Args) == 2 &&
				sliceRoot(gc.Call.Args[0]) == input && (gc.Call.Args[1] == pfx || sameValue(gc.Call.Args[1], pfx)) {
				if _, isSl := gc.Call.Args[0].(*ssa.Slice); !isSl {
					return true
				}
			}
		}
		return false
	}
	lenArg := func(v ssa.Value) ssa.Value {
		if call, ok := v.(*ssa.Call); ok {
			if bi, ok := call.Call.Value.(*ssa.Builtin); ok && bi.Name() == "len" {
				return call.Call.Args[0]
			}
		}
		return nil
	}
	// `for range P { ReadByte }` under HasPrefix(input, P): one byte per byte of the matched prefix
	for _, in := range h.Instrs {
		if bo, ok := in.(*ssa.BinOp); ok && isRangeIndex(bo) {
			for _, r := range referrers(bo) {
				if cmp, isCmp := r.(*ssa.BinOp); isCmp && cmp.Op == token.LSS && cmp.X == ssa.Value(bo) && cmp.Block() == h {
					if pfx := lenArg(cmp.Y); pfx != nil && underHasPrefix(pfx) {
						return "prefix", "one read per byte of P (range over P) under HasPrefix(input, P)"
					}
				}
			}
		}
	}
	// the controlling phi
	for _, in := range h.Instrs {
		phi, ok := in.(*ssa.Phi)
		if !ok {
			continue
		}
		var init, step ssa.Value
		var inits []ssa.Value
		for i, e := range phi.Edges {
			if body[h.Preds[i]] {
				step = e
			} else {
				inits = append(inits, e)
			}
		}
		if len(inits) == 1 {
			init = inits[0]
		} else if len(inits) > 1 {
			// several ways into the loop: they must agree, or all be decoder results
			same, allN := true, true
			for _, e := range inits {
				if e != inits[0] {
					same = false
				}
				if !isTransformNSrc(e, 0) {
					allN = false
				}
			}
			if same || allN {
				init = inits[0]
			}
		}
		if init == nil || step == nil {
			continue
		}
		sb, ok := step.(*ssa.BinOp)
		if !ok || sb.X != ssa.Value(phi) {
			continue
		}
		k, ok := constInt(sb.Y)
		if !ok || k != 1 {
			continue
		}
		// the exit test in the header
		var cmp *ssa.BinOp
		if len(h.Instrs) > 0 {
			if iff, ok := h.Instrs[len(h.Instrs)-1].(*ssa.If); ok {
				cmp, _ = iff.Cond.(*ssa.BinOp)
			}
		}
		if cmp == nil || cmp.X != ssa.Value(phi) {
			continue
		}
		// progress: a decoder count is used only where the decoder produced output (a decoder that
		// produced something consumed something); an ignored nDst can mean nSrc == 0, and a parser that
		// answers 'complete' without consuming makes the collect loop spin
		producedFor := func(vals []ssa.Value) bool {
			var srcs []ssa.Value
			var collect func(v ssa.Value)
			collect = func(v ssa.Value) {
				switch x := v.(type) {
				case *ssa.Extract:
					srcs = append(srcs, x.Tuple)
				case *ssa.Phi:
					for _, e := range x.Edges {
						collect(e)
					}
				}
			}
			for _, e := range vals {
				collect(e)
			}
			produced := len(srcs) > 0
			for _, src := range srcs {
				okSrc := false
				for _, g := range rawGuardsAt(h) {
					bo, ok := g.Cond.(*ssa.BinOp)
					if !ok {
						continue
					}
					ex, ok := bo.X.(*ssa.Extract)
					if !ok || ex.Index != 0 || ex.Tuple != src {
						continue
					}
					if k, ok := constInt(bo.Y); ok && k == 0 && ((bo.Op == token.NEQ && g.Positive) || (bo.Op == token.EQL && !g.Positive) || (bo.Op == token.GTR && g.Positive)) {
						okSrc = true
					}
				}
				if !okSrc {
					produced = false
				}
			}
			return produced
		}
		switch sb.Op {
		case token.SUB:
			if z, ok := constInt(cmp.Y); ok {
				if cmp.Op == token.GEQ && z == 0 {
					// runs init+1 times: init must be the scan index of the match
					if isRangeIndexOver(init, input) {
						return "countdown", "reads (scan index + 1) bytes: the whole matched sequence"
					}
					return "", "countdown `>= 0` from " + valName(init) + ", which is not the scan index"
				}
				if cmp.Op == token.GTR && z == 0 {
					// runs init times: init must be Transform's nSrc
					if isTransformNSrc(init, 0) {
						produced := producedFor(inits)
						if !produced {
							return "", "the decoder's consumed count is used without checking that it produced output (the count may be zero: 'complete' without progress)"
						}
						return "decoder", "reads as many bytes as the decoder reports consumed (nSrc), where it produced output"
					}
					if isRangeIndexOver(init, input) {
						return "", "countdown `> 0` from the scan index reads one byte fewer than the match"
					}
					// for n := i + 1; n > 0; n-- with i the scan index
					if sum, isSum := init.(*ssa.BinOp); isSum && sum.Op == token.ADD {
						if one, isK := constInt(sum.Y); isK && one == 1 && isRangeIndexOver(sum.X, input) {
							return "countdown", "reads (scan index + 1) bytes: the whole matched sequence"
						}
					}
					// for n := len(P); n > 0; n-- under HasPrefix(input, P)
					if pfx := lenArg(init); pfx != nil && underHasPrefix(pfx) {
						return "prefix", "counts len(P) down to zero under HasPrefix(input, P)"
					}
					// for n := base+k; n > 0; n-- where input[base+k-1] is the last byte looked at
					if len(h.Instrs) > 0 && examinedUpTo(h.Parent(), input, h, init, h.Instrs[0]) {
						return "countdown", "counts down from base+k, input[base+k-1] being the last byte examined: the matched sequence"
					}
					return "", "countdown `> 0` from " + valName(init)
				}
			}
		case token.ADD:
			// for i := 0; i < nSrc; i++: as many reads as the decoder reports consumed
			if z, ok := constInt(init); ok && z == 0 && cmp.Op == token.LSS && isTransformNSrc(cmp.Y, 0) {
				if !producedFor([]ssa.Value{cmp.Y}) {
					return "", "the decoder's consumed count is used without checking that it produced output (the count may be zero: 'complete' without progress)"
				}
				return "decoder", "reads as many bytes as the decoder reports consumed (counting up to nSrc), where it produced output"
			}
			if z, ok := constInt(init); ok && z == 0 && cmp.Op == token.LSS {
				if call, ok := cmp.Y.(*ssa.Call); ok {
					if bi, ok := call.Call.Value.(*ssa.Builtin); ok && bi.Name() == "len" {
						pfx := call.Call.Args[0]
						for _, g := range rawGuardsAt(h) {
							if gc, ok := g.Cond.(*ssa.Call); ok && g.Positive && calleeName(&gc.Call) == "bytes.HasPrefix" && len(gc.Call.Args) == 2 &&
								sliceRoot(gc.Call.Args[0]) == input && gc.Call.Args[1] == pfx {
								if _, isSl := gc.Call.Args[0].(*ssa.Slice); !isSl {
									return "prefix", "reads len(P) bytes under HasPrefix(input, P)"
								}
							}
						}
						return "", "counts up to len(" + valName(pfx) + ") without a dominating HasPrefix(input, same value)"
					}
				}
			}
		}
	}
	return "", "loop shape not recognised"
}

func isRangeIndexOver(v ssa.Value, input ssa.Value) bool {
	bo, ok := v.(*ssa.BinOp)
	if !ok || !isRangeIndex(bo) {
		return false
	}
	return scanIndexOf(bo.Block(), input) == ssa.Value(bo)
}

// scanIndexAt: abstract interpretation of a `for i := range b { switch state
// {…} }` recogniser over pairs (state, i).  Returns the possible values of i
// when control reaches block at.  nil (with a reason) when the parser is not
// of that shape.
func scanIndexAt(h *ssa.BasicBlock, at *ssa.BasicBlock) ([]int, string) {
	// the state variable: a phi in the header, other than the range index,
	// whose incoming values are int constants or itself
	var st *ssa.Phi
	for _, in := range h.Instrs {
		phi, ok := in.(*ssa.Phi)
		if !ok {
			continue
		}
		if b, ok := phi.Type().Underlying().(*types.Basic); !ok || b.Info()&types.IsInteger == 0 {
			continue
		}
		allConst, anyConst, isIdx := true, false, false
		for _, e := range phi.Edges {
			if e == ssa.Value(phi) {
				continue
			}
			if _, ok := constInt(e); ok {
				anyConst = true
				continue
			}
			if bo, ok := e.(*ssa.BinOp); ok && bo.X == ssa.Value(phi) {
				if k, ok := constInt(bo.Y); ok && k == 1 && bo.Op == token.ADD {
					// either the range index itself or `state++`
					if isRangeIndex(bo) {
						isIdx = true
					}
					continue
				}
			}
			allConst = false
		}
		if isIdx || !allConst || !anyConst {
			continue
		}
		if st != nil {
			// two candidates: pick the one that is compared with constants in guards of `at`
			continue
		}
		st = phi
	}
	if st == nil {
		return nil, "no state variable (integer phi fed by constants) in the scan loop"
	}
	stateGuard := func(b *ssa.BasicBlock, succ *ssa.BasicBlock) (eq *int64, neq map[int64]bool) {
		neq = map[int64]bool{}
		gs := rawGuardsAt(b)
		if succ != nil && len(b.Instrs) > 0 {
			// the branch that ends b, with the polarity of the edge b -> succ
			if iff, ok := b.Instrs[len(b.Instrs)-1].(*ssa.If); ok && b.Succs[0] != b.Succs[1] {
				gs = append(gs, rawGuard{iff.Cond, b.Succs[0] == succ})
			}
		}
		for _, g := range gs {
			bo, ok := g.Cond.(*ssa.BinOp)
			if !ok || bo.X != ssa.Value(st) {
				continue
			}
			k, ok := constInt(bo.Y)
			if !ok {
				continue
			}
			if (bo.Op == token.EQL && g.Positive) || (bo.Op == token.NEQ && !g.Positive) {
				kk := k
				eq = &kk
			} else if (bo.Op == token.EQL && !g.Positive) || (bo.Op == token.NEQ && g.Positive) {
				neq[k] = true
			}
		}
		return
	}
	type pair struct {
		s int64
		i int
	}
	const capIdx = 24
	reach := map[pair]bool{}
	var work []pair
	add := func(pr pair) {
		if !reach[pr] {
			reach[pr] = true
			work = append(work, pr)
		}
	}
	for i, e := range st.Edges {
		pred := h.Preds[i]
		if h.Dominates(pred) {
			continue
		}
		k, ok := constInt(e)
		if !ok {
			return nil, "state is not initialised with a constant"
		}
		add(pair{k, 0})
	}
	for len(work) > 0 {
		cur := work[len(work)-1]
		work = work[:len(work)-1]
		if cur.i >= capIdx {
			return nil, "scan index unbounded for some state"
		}
		for i, e := range st.Edges {
			pred := h.Preds[i]
			if !h.Dominates(pred) {
				continue
			}
			eq, neq := stateGuard(pred, h)
			if eq != nil && *eq != cur.s {
				continue
			}
			if eq == nil && neq[cur.s] {
				continue
			}
			var next int64
			if e == ssa.Value(st) {
				next = cur.s
			} else if k, ok := constInt(e); ok {
				next = k
			} else if bo, ok := e.(*ssa.BinOp); ok && bo.X == ssa.Value(st) {
				next = cur.s + 1
			} else {
				return nil, "state update not recognised"
			}
			add(pair{next, cur.i + 1})
		}
	}
	eq, neq := stateGuard(at, nil)
	set := map[int]bool{}
	for pr := range reach {
		if eq != nil && *eq != pr.s {
			continue
		}
		if eq == nil && neq[pr.s] {
			continue
		}
		set[pr.i] = true
	}
	if len(set) == 0 {
		return nil, "consumption site unreachable in the abstract state machine"
	}
	var out []int
	for i := range set {
		out = append(out, i)
	}
	sort.Ints(out)
	return out, ""
}

// ---------------------------------------------------------------------------
// Ownership of input chunks handed over a channel (C02-R10, C05-R6, C11-R5).
//
// The reader goroutine hands each chunk it read to the parser goroutine through
// a buffered channel.  Until the receiver has copied it, the chunk's backing
// array belongs to the receiver; so the array must be allocated afresh for each
// chunk sent: every control-flow cycle through the send must pass through the
// allocation of the array that is sent.  Otherwise a later Read overwrites
// chunks still queued (bytes lost, duplicated or corrupted, depending on the
// schedule).
// ---------------------------------------------------------------------------

func checkChunkOwnership(c *Ctx, p *Prog, rule string) {
	n := 0
	for _, fn := range p.modFns {
		if fn.Pkg != p.Tcell {
			continue
		}
		eachInstr(fn, func(in ssa.Instruction) {
			type sent struct {
				ch, v ssa.Value
			}
			var sends []sent
			switch x := in.(type) {
			case *ssa.Send:
				sends = append(sends, sent{x.Chan, x.X})
			case *ssa.Select:
				for _, st := range x.States {
					if st.Dir == types.SendOnly {
						sends = append(sends, sent{st.Chan, st.Send})
					}
				}
			}
			for _, s := range sends {
				ct, ok := s.ch.Type().Underlying().(*types.Chan)
				if !ok {
					continue
				}
				sl, ok := ct.Elem().Underlying().(*types.Slice)
				if !ok {
					continue
				}
				if b, ok := sl.Elem().Underlying().(*types.Basic); !ok || b.Kind() != types.Byte && b.Kind() != types.Uint8 {
					continue
				}
				n++
				key := fn.Name() + ":chunk-sent-on-" + strings.TrimPrefix(chanName(s.ch, nil, 0), "tcell.")
				root := s.v
				for {
					if x, ok := root.(*ssa.Slice); ok {
						root = x.X
						continue
					}
					break
				}
				var allocBlock *ssa.BasicBlock
				switch a := root.(type) {
				case *ssa.Alloc:
					if a.Heap {
						allocBlock = a.Block()
					}
				case *ssa.MakeSlice:
					allocBlock = a.Block()
				case *ssa.Call:
					// append(...)/copy into a fresh value: treat builtin append of a fresh slice as fresh
					if bi, ok := a.Call.Value.(*ssa.Builtin); ok && bi.Name() == "append" {
						allocBlock = a.Block()
					}
				}
				if allocBlock == nil {
					c.Fail(rule, key, p.pos(in.Pos()), "the slice sent is not rooted at an allocation made by this function ("+valName(root)+"): its backing array may be shared")
					continue
				}
				// is there a cycle through the send that avoids the allocation?
				sb := in.Block()
				bad := false
				if sb != allocBlock {
					seen := map[*ssa.BasicBlock]bool{}
					stack := append([]*ssa.BasicBlock{}, sb.Succs...)
					for len(stack) > 0 {
						b := stack[len(stack)-1]
						stack = stack[:len(stack)-1]
						if seen[b] || b == allocBlock {
							continue
						}
						seen[b] = true
						if b == sb {
							bad = true
							break
						}
						stack = append(stack, b.Succs...)
					}
				}
				c.Check(!bad, rule, key, p.pos(in.Pos()), "every cycle through the send passes through the allocation of the array that is sent (a fresh array per chunk)")
			}
		})
	}
	if n == 0 {
		c.Undecided(rule, "chunk-channel", "-", "no send of a byte slice over a channel found (the input hand-over was expected)")
	}
}

// isTransformNSrc: v is the nSrc result of a Transformer.Transform call (or a merge of such results).
func isTransformNSrc(v ssa.Value, d int) bool {
	if d > 3 {
		return false
	}
	switch x := v.(type) {
	case *ssa.Extract:
		if x.Index == 1 {
			if call, ok := x.Tuple.(*ssa.Call); ok && call.Call.IsInvoke() && call.Call.Method.Name() == "Transform" {
				return true
			}
		}
		// the count handed back by a helper that runs the decoder (`utf, nIn := t.decodeLeading(b)`):
		// every return gives the decoder's count, or 0 together with "nothing decoded"
		if call, ok := x.Tuple.(*ssa.Call); ok {
			if h := call.Call.StaticCallee(); h != nil && call.Parent() != nil && h.Pkg == call.Parent().Pkg && len(h.Blocks) > 0 {
				some := false
				for _, r := range returnsOf(h) {
					if x.Index >= len(r.Results) {
						return false
					}
					res := derefCell(resultOf(r, x.Index))
					if k, isK := constInt(res); isK && k == 0 {
						continue
					}
					if !isTransformNSrc(res, d+1) {
						return false
					}
					some = true
				}
				return some
			}
		}
	case *ssa.Phi:
		for _, e := range x.Edges {
			if !isTransformNSrc(e, d+1) {
				return false
			}
		}
		return len(x.Edges) > 0
	}
	return false
}

// ---------------------------------------------------------------------------
// C02-R11: a parser's "partial" answer over several candidates accumulates.
//
// parseFunctionKey looks at every key of the table; the answer "more input could
// still complete a key" must be true if that holds for ANY key.  An assignment
// that overwrites the flag for every key makes the answer depend on which key
// the (randomly ordered) map yields last, and a sequence split across reads is
// then taken apart.  The value returned as "partial" may only be built from the
// constants false/true, or from a test made where the flag is known to be false.
// ---------------------------------------------------------------------------

func c02PartialAccumulates(c *Ctx, p *Prog, pi *parserInfo, rule string) {
	fn := pi.fn
	loops := loopsOf(fn)
	for _, r := range returnsOf(fn) {
		if len(r.Results) != 2 {
			continue
		}
		if comp, ok := constBool(r.Results[1]); !ok || comp {
			continue
		}
		root, ok := r.Results[0].(*ssa.Phi)
		if !ok {
			continue
		}
		// only accumulators: phis that live in a loop header
		if _, isHdr := loops[root.Block()]; !isHdr {
			continue
		}
		closure := map[*ssa.Phi]bool{}
		var collect func(x *ssa.Phi)
		collect = func(x *ssa.Phi) {
			if closure[x] {
				return
			}
			closure[x] = true
			for _, e := range x.Edges {
				if y, ok := e.(*ssa.Phi); ok {
					collect(y)
				}
			}
		}
		collect(root)
		bad := ""
		for x := range closure {
			for i, e := range x.Edges {
				if _, ok := e.(*ssa.Phi); ok {
					continue
				}
				if _, ok := constBool(e); ok {
					continue
				}
				// a computed value: fine only where the accumulator is known to be false
				pred := x.Block().Preds[i]
				knownFalse := false
				for _, g := range rawGuardsAt(pred) {
					if ph, ok := g.Cond.(*ssa.Phi); ok && closure[ph] && !g.Positive {
						knownFalse = true
					}
				}
				if !knownFalse {
					bad += fmt.Sprintf("the flag is overwritten with %s (edge from block %d, %s); ", valName(e), pred.Index, p.pos(firstPos(pred)))
				}
			}
		}
		c.Check(bad == "", rule, fn.Name()+":partial-accumulates", p.pos(r.Pos()), "the partial answer over all candidates is only ever raised, never overwritten "+bad)
	}
}

// checkReadBytesQueued: io.Reader allows a read to return its last bytes together with an error.  In
// every function that reads from the Tty and queues byte chunks, the send of the bytes read must not
// be decided by the read's error: no guard that dominates the send depends on the error result, and
// the slice sent is cut with the read's own count.
func checkReadBytesQueued(c *Ctx, p *Prog, rule string) {
	found := 0
	for _, fn := range p.modFns {
		if fn.Pkg != p.Tcell {
			continue
		}
		var reads []*ssa.Call
		eachInstr(fn, func(in ssa.Instruction) {
			if call, ok := in.(*ssa.Call); ok && call.Call.IsInvoke() && call.Call.Method.Name() == "Read" && strings.HasSuffix(typeName(call.Call.Value.Type()), "Tty") {
				reads = append(reads, call)
			}
		})
		if len(reads) == 0 {
			continue
		}
		for _, rd := range reads {
			var nVal, eVal ssa.Value
			for _, r := range *rd.Referrers() {
				if ex, ok := r.(*ssa.Extract); ok {
					if ex.Index == 0 {
						nVal = ex
					} else {
						eVal = ex
					}
				}
			}
			// sends of byte slices in this function
			eachInstr(fn, func(in ssa.Instruction) {
				var sent []ssa.Value
				switch x := in.(type) {
				case *ssa.Send:
					sent = append(sent, x.X)
				case *ssa.Select:
					for _, st := range x.States {
						if st.Dir == types.SendOnly {
							sent = append(sent, st.Send)
						}
					}
				}
				for _, v := range sent {
					sl, ok := v.(*ssa.Slice)
					if !ok {
						continue
					}
					if _, isBytes := sl.Type().Underlying().(*types.Slice); !isBytes {
						continue
					}
					found++
					key := fn.Name() + ":bytes-read-are-queued"
					if nVal == nil || sl.High != nVal {
						c.Fail(rule, key, p.pos(in.Pos()), "the chunk queued is not cut with the count the read returned ("+valName(sl.High)+")")
						continue
					}
					bad := ""
					for _, g := range rawGuardsAt(in.Block()) {
						if eVal != nil && dependsOn(g.Cond, eVal, 4) {
							bad = "the send is decided by the read's error (" + p.pos(g.Cond.Pos()) + "): bytes returned together with an error are dropped"
						}
					}
					// … nor skipped by a branch on the error taken before the send is reached (an early
					// `continue` for errors the reader gets over)
					if bad == "" && eVal != nil {
						readBlk, sendBlk := rd.Block(), in.Block()
						reachSend := func(from *ssa.BasicBlock) bool {
							seen := map[*ssa.BasicBlock]bool{}
							var walk func(b *ssa.BasicBlock) bool
							walk = func(b *ssa.BasicBlock) bool {
								if b == sendBlk {
									return true
								}
								if seen[b] || b == readBlk {
									return false
								}
								seen[b] = true
								for _, sc := range b.Succs {
									if walk(sc) {
										return true
									}
								}
								return false
							}
							return walk(from)
						}
						seen := map[*ssa.BasicBlock]bool{}
						var scan func(b *ssa.BasicBlock)
						scan = func(b *ssa.BasicBlock) {
							if seen[b] || b == sendBlk {
								return
							}
							seen[b] = true
							if !reachSend(b) {
								return // past the point where the bytes could still be queued
							}
							if iff, isIf := b.Instrs[len(b.Instrs)-1].(*ssa.If); isIf && dependsOn(iff.Cond, eVal, 4) {
								for _, sc := range b.Succs {
									if !reachSend(sc) {
										bad = "a branch on the read's error at " + p.pos(iff.Cond.Pos()) + " leaves this round before the bytes are queued"
									}
								}
							}
							for _, sc := range b.Succs {
								if sc != readBlk {
									scan(sc)
								}
							}
						}
						if readBlk != sendBlk {
							for _, sc := range readBlk.Succs {
								scan(sc)
							}
						}
					}
					c.Check(bad == "", rule, key, p.pos(in.Pos()), "chunk[:n] is queued whatever error the read reported along with it "+bad)
				}
			})
		}
	}
	if found == 0 {
		c.Undecided(rule, "tty-read:queued", "-", "no function reads the Tty and queues the bytes")
	}
}

// dependsOn: v is computed from x within depth operand steps.
func dependsOn(v, x ssa.Value, depth int) bool {
	if v == x {
		return true
	}
	if depth == 0 {
		return false
	}
	if in, ok := v.(ssa.Instruction); ok {
		for _, op := range in.Operands(nil) {
			if *op != nil && dependsOn(*op, x, depth-1) {
				return true
			}
		}
	}
	return false
}

// checkConsumedDelivers: input that a parser removes from the buffer with the answer "complete" turns
// into an event.  Every path from the parser's entry to a complete-return passes an append to the event
// list, with one excuse: input the charset decoder could not decode (it substitutes U+FFFD) — and that
// excuse requires, besides the test for U+FFFD, the negative answer of a comparison of the consumed
// bytes with the charset's own encoding of U+FFFD (bytes.Equal), because U+FFFD that was really sent
// is a character like any other.  Dropping decoded reports because of some mode flag ("the application
// did not ask for motion") is not an excuse: drag reports carry the same bit.
func checkConsumedDelivers(c *Ctx, p *Prog, rule string, only func(name string) bool) {
	for _, pi := range inputParsers(p) {
		fn := pi.fn
		if only != nil && !only(fn.Name()) {
			continue
		}
		removed := map[*ssa.BasicBlock]bool{}
		for _, b := range fn.Blocks {
			for _, in := range b.Instrs {
				if st, ok := in.(*ssa.Store); ok && st.Addr == ssa.Value(pi.evsPrm) {
					removed[b] = true
				}
				// the event may be appended by a helper that is handed the list (`appendClipboard(evs, payload)`):
				// every way through the helper stores into the list, the base64 error edge excepted
				if cc := callCommon(in); cc != nil {
					if h := cc.StaticCallee(); h != nil && h.Pkg == fn.Pkg && len(h.Blocks) > 0 {
						for i, a := range cc.Args {
							if a == ssa.Value(pi.evsPrm) && i < len(h.Params) && helperAlwaysAppends(h, h.Params[i]) {
								removed[b] = true
							}
						}
					}
				}
			}
		}
		type edge struct {
			from *ssa.BasicBlock
			idx  int
		}
		excused := map[edge]bool{}
		for _, b := range fn.Blocks {
			if len(b.Instrs) == 0 {
				continue
			}
			iff, ok := b.Instrs[len(b.Instrs)-1].(*ssa.If)
			if !ok {
				continue
			}
			// a clipboard reply whose payload is not base64 has no content to deliver: the error edge
			// of the base64 decoder is the second (and last) excuse
			if bo, isBO := iff.Cond.(*ssa.BinOp); isBO && (bo.Op == token.EQL || bo.Op == token.NEQ) && isNilConst(bo.Y) {
				if ex, isEx := bo.X.(*ssa.Extract); isEx {
					if call, isCall := ex.Tuple.(*ssa.Call); isCall && strings.HasPrefix(calleeName(&call.Call), "(*encoding/base64.Encoding).Decode") {
						if bo.Op == token.EQL {
							excused[edge{b, 1}] = true
						} else {
							excused[edge{b, 0}] = true
						}
						continue
					}
				}
			}
			// the two tests joined in one condition (`substituted := r == U+FFFD && !genuine(...)`;
			// `if !substituted { deliver }`): the edge on which both hold is the excuse
			joined := false
			for idx := 0; idx < 2; idx++ {
				isSub, notGenuine := false, false
				for _, g := range expandCond(iff.Cond, idx == 0, 0) {
					if bo, isBO := g.Cond.(*ssa.BinOp); isBO {
						if k, isK := constInt(bo.Y); isK && k == 0xFFFD && ((bo.Op == token.EQL && g.Positive) || (bo.Op == token.NEQ && !g.Positive)) {
							isSub = true
						}
					}
					if !g.Positive && derivesFromBytesEqual(p, g.Cond, 4) {
						notGenuine = true
					}
				}
				if isSub && notGenuine {
					excused[edge{b, idx}] = true
					joined = true
				}
			}
			if joined {
				continue
			}
			if !derivesFromBytesEqual(p, iff.Cond, 4) {
				continue
			}
			// only for a rune the decoder substituted
			sub := false
			for _, g := range rawGuardsAt(b) {
				if bo, isBO := g.Cond.(*ssa.BinOp); isBO {
					if k, isK := constInt(bo.Y); isK && k == 0xFFFD && ((bo.Op == token.NEQ && !g.Positive) || (bo.Op == token.EQL && g.Positive)) {
						sub = true
					}
				}
			}
			if sub {
				excused[edge{b, 1}] = true
			}
		}
		// reachability from entry avoiding append blocks and excused edges
		seen := map[*ssa.BasicBlock]bool{}
		var stack []*ssa.BasicBlock
		if len(fn.Blocks) > 0 && !removed[fn.Blocks[0]] {
			stack = append(stack, fn.Blocks[0])
		}
		for len(stack) > 0 {
			b := stack[len(stack)-1]
			stack = stack[:len(stack)-1]
			if seen[b] {
				continue
			}
			seen[b] = true
			for i, s := range b.Succs {
				if removed[s] || excused[edge{b, i}] {
					continue
				}
				stack = append(stack, s)
			}
		}
		bad, n := "", 0
		for _, r := range returnsOf(fn) {
			if len(r.Results) != 2 {
				continue
			}
			if comp, isC := constBool(r.Results[1]); isC && !comp {
				continue
			}
			n++
			if seen[r.Block()] {
				bad += "the complete-return at " + p.pos(r.Pos()) + " can be reached without an event having been appended; "
			}
		}
		c.Check(bad == "" && n > 0, rule, fn.Name()+":consumed-input-becomes-an-event", p.pos(fn.Pos()), fmt.Sprintf("%d complete-return(s), %d excused edge(s) (undecodable input / payload that is not base64) %s", n, len(excused), bad))
	}
}

// derivesFromBytesEqual: v is the result of bytes.Equal, of a module function returning such a result,
// or a boolean combination / phi of those.
func derivesFromBytesEqual(p *Prog, v ssa.Value, depth int) bool {
	if depth < 0 {
		return false
	}
	switch x := v.(type) {
	case *ssa.Call:
		if calleeName(&x.Call) == "bytes.Equal" && len(x.Call.Args) == 2 {
			// one side is what the screen's own encoder makes of U+FFFD (a fixed byte string is the
			// encoding in one character set only: GB18030 has its own)
			return fromScreenEncoder(x.Call.Args[0], 0) || fromScreenEncoder(x.Call.Args[1], 0)
		}
		if callee := x.Call.StaticCallee(); callee != nil && p.allFns[callee] && callee.Pkg == p.Tcell {
			for _, r := range returnsOf(callee) {
				for _, res := range r.Results {
					if derivesFromBytesEqual(p, res, depth-1) {
						return true
					}
				}
			}
		}
	case *ssa.Phi:
		for _, e := range x.Edges {
			if derivesFromBytesEqual(p, e, depth-1) {
				return true
			}
		}
	case *ssa.BinOp:
		return derivesFromBytesEqual(p, x.X, depth-1) || derivesFromBytesEqual(p, x.Y, depth-1)
	case *ssa.UnOp:
		return derivesFromBytesEqual(p, x.X, depth-1)
	}
	return false
}

// checkStrictDispatch (C02-R14): a recogniser whose scan loop begins by dispatching on the current byte
// (a `switch b[i]` at the top of the loop body) must reject every byte it has no case for.  Without a
// default the byte is skipped: it is swallowed by the sequence that is recognised around it ("ESC a [ <
// 0;5;5 M" becomes one mouse report), and any "ESC x" keeps the recogniser "partial" until the timer
// runs out.  Decided on the CFG: the edge taken when none of the byte comparisons matched must not lead
// back to the loop header.
func checkStrictDispatch(c *Ctx, p *Prog, rule string) {
	n := 0
	for _, pi := range inputParsers(p) {
		fn := pi.fn
		for h, body := range loopsOf(fn) {
			// the loop body's entry: the successor of the header that is inside the loop
			var entry *ssa.BasicBlock
			for _, s := range h.Succs {
				if body[s] && s != h {
					entry = s
				}
			}
			if entry == nil {
				continue
			}
			byteTest := func(b *ssa.BasicBlock) (ssa.Value, bool) {
				if len(b.Instrs) == 0 {
					return nil, false
				}
				iff, ok := b.Instrs[len(b.Instrs)-1].(*ssa.If)
				if !ok {
					return nil, false
				}
				bo, ok := iff.Cond.(*ssa.BinOp)
				if !ok || bo.Op != token.EQL {
					return nil, false
				}
				if _, isK := constInt(bo.Y); !isK {
					return nil, false
				}
				u, ok := bo.X.(*ssa.UnOp)
				if !ok || u.Op != token.MUL {
					return nil, false
				}
				if _, isIA := u.X.(*ssa.IndexAddr); !isIA {
					return nil, false
				}
				return bo.X, true
			}
			// the dispatch need not be the first thing in the loop body (a hoisted predicate may come
			// first): take the longest chain of comparisons of one loaded byte with constants in which each
			// comparison is the no-match successor of the one before
			isFalseSucc := map[*ssa.BasicBlock]bool{}
			for b := range body {
				if v, isT := byteTest(b); isT {
					if v2, isT2 := byteTest(b.Succs[1]); isT2 && v2 == v {
						isFalseSucc[b.Succs[1]] = true
					}
				}
			}
			var head *ssa.BasicBlock
			best := 0
			for b := range body {
				v, isT := byteTest(b)
				if !isT || isFalseSucc[b] {
					continue
				}
				length := 0
				for x := b; ; x = x.Succs[1] {
					v2, isT2 := byteTest(x)
					if !isT2 || v2 != v {
						break
					}
					length++
				}
				if length > best || (length == best && head != nil && b.Index < head.Index) {
					best, head = length, b
				}
			}
			if head == nil || best < 4 {
				continue
			}
			entry = head
			cur, ok := byteTest(entry)
			if !ok {
				continue
			}
			n++
			blk := entry
			cases := 0
			for {
				v, isT := byteTest(blk)
				if !isT || v != cur {
					break
				}
				cases++
				blk = blk.Succs[1]
			}
			// follow plain jumps
			seen := map[*ssa.BasicBlock]bool{}
			back := false
			for !seen[blk] {
				seen[blk] = true
				if blk == h {
					back = true
					break
				}
				if len(blk.Instrs) > 0 {
					if _, isJ := blk.Instrs[len(blk.Instrs)-1].(*ssa.Jump); isJ {
						// a block that only advances the index and jumps on is the loop's latch
						blk = blk.Succs[0]
						continue
					}
					if _, isIf := blk.Instrs[len(blk.Instrs)-1].(*ssa.If); isIf && body[blk] && blk.Dominates(h) == false && len(blk.Succs) == 2 && (blk.Succs[0] == h || blk.Succs[1] == h) {
						back = true
					}
				}
				break
			}
			// rotated range loops test `i+1 < len` in the latch itself
			if !back && body[blk] {
				for _, s := range blk.Succs {
					if s == entry || s == h {
						back = true
					}
				}
			}
			c.Check(!back, rule, fn.Name()+":unknown-byte-rejects", p.pos(firstPos(entry)), fmt.Sprintf("switch on the current byte with %d comparisons; the no-match edge %s", cases, map[bool]string{true: "falls through to the next iteration: the byte is skipped", false: "leaves the loop"}[back]))
		}
	}
	if n == 0 {
		c.Undecided(rule, "byte-dispatching recogniser", "-", "no recogniser dispatching on the current byte found")
	}
}

// checkGenuineReplacementChar: wherever a decoder's output rune is compared with U+FFFD in order to
// drop it, the "it is U+FFFD" edge must lead to a second test that compares the consumed bytes with the
// charset's own encoding of U+FFFD (a bytes.Equal-derived condition): only input the decoder could not
// decode may be dropped, not the character itself.
func checkGenuineReplacementChar(c *Ctx, p *Prog, fn *ssa.Function, rule string) {
	n := 0
	for _, b := range fn.Blocks {
		if len(b.Instrs) == 0 {
			continue
		}
		iff, ok := b.Instrs[len(b.Instrs)-1].(*ssa.If)
		if !ok {
			continue
		}
		bo, ok := iff.Cond.(*ssa.BinOp)
		if !ok || (bo.Op != token.NEQ && bo.Op != token.EQL) {
			continue
		}
		if k, isK := constInt(bo.Y); !isK || k != 0xFFFD {
			continue
		}
		n++
		sub := b.Succs[1] // r != U+FFFD is false
		if bo.Op == token.EQL {
			sub = b.Succs[0]
		}
		ok2 := false
		if len(sub.Instrs) > 0 {
			if i2, isIf := sub.Instrs[len(sub.Instrs)-1].(*ssa.If); isIf && derivesFromBytesEqual(p, i2.Cond, 4) {
				ok2 = true
			}
		}
		c.Check(ok2, rule, fmt.Sprintf("%s:U+FFFD-test#%d:genuine-one-delivered", fn.Name(), n), p.pos(iff.Pos()), "a rune equal to U+FFFD is dropped only after the consumed bytes were compared with the charset's encoding of U+FFFD")
	}
	if n == 0 {
		c.Undecided(rule, fn.Name()+":U+FFFD-test", p.pos(fn.Pos()), "no comparison of the decoded rune with U+FFFD found")
	}
}

// isRangeIndexValue: v is the index variable of a `for i, c := range input` / `for i := range input`
// loop as it is seen inside the loop body (go/ssa names it through the rangeindex increment).
func isRangeIndexValue(v ssa.Value, input ssa.Value) bool {
	bo, ok := v.(*ssa.BinOp)
	if ok && isRangeIndex(bo) {
		return isRangeIndexOver(v, input)
	}
	return false
}

// examinedUpTo: n = base + k (base a value that cannot be negative, or a phi of constants) and
// input[base+k-1] is the last byte of the input looked at on the way to block b: the count is the length
// of the matched sequence.
func examinedUpTo(fn *ssa.Function, input ssa.Value, b *ssa.BasicBlock, n ssa.Value, at ssa.Instruction) bool {
	vb, k := linBase(n)
	if vb == nil || k < 1 {
		return false
	}
	if call, isCall := vb.(*ssa.Call); isCall {
		if bi, isB := call.Call.Value.(*ssa.Builtin); isB && bi.Name() == "len" {
			return false // prefix idioms below
		}
	}
	// smallest value the base can have: a phi of constants, else zero if provably non-negative
	lb := int64(0)
	if phi, isPhi := vb.(*ssa.Phi); isPhi {
		lb = 1 << 40
		for _, e := range phi.Edges {
			c, isC := constInt(e)
			if !isC {
				lb = -1
				break
			}
			if c < lb {
				lb = c
			}
		}
	} else if okN, _ := nonNegative(vb, at, 0); !okN {
		lb = -1
	}
	if lb < 0 {
		return false
	}
	last, bad := false, false
	eachInstr(fn, func(in ssa.Instruction) {
		ia, isIA := in.(*ssa.IndexAddr)
		if !isIA || !in.Block().Dominates(b) {
			return
		}
		ib, off := linBase(ia.Index)
		if ia.X != input {
			// an index into a reslice input[L:] is L further on
			sl, isSl := ia.X.(*ssa.Slice)
			if !isSl || sl.X != input || sl.Low == nil {
				return
			}
			lb2, loff := linBase(sl.Low)
			switch {
			case ib == nil:
				ib, off = lb2, off+loff
			case lb2 == nil:
				off += loff
			default:
				bad = true
				return
			}
		}
		switch {
		case ib == nil: // constant index
			if off > lb+k-1 {
				bad = true
			}
		case ib == vb || sameValue(ib, vb):
			if off > k-1 {
				bad = true
			}
			if off == k-1 {
				last = true
			}
		default:
			bad = true
		}
	})
	return last && !bad
}

// helperAlwaysAppends: every path through h to a return passes a store into the event list evs, except
// by the error edge of the base64 decoder (a clipboard reply whose payload is not base64 has nothing to
// deliver).
func helperAlwaysAppends(h *ssa.Function, evs *ssa.Parameter) bool {
	appends := map[*ssa.BasicBlock]bool{}
	for _, b := range h.Blocks {
		for _, in := range b.Instrs {
			if st, ok := in.(*ssa.Store); ok && st.Addr == ssa.Value(evs) {
				appends[b] = true
			}
		}
	}
	if len(appends) == 0 {
		return false
	}
	type edge struct {
		from *ssa.BasicBlock
		idx  int
	}
	excused := map[edge]bool{}
	for _, b := range h.Blocks {
		if len(b.Instrs) == 0 {
			continue
		}
		iff, ok := b.Instrs[len(b.Instrs)-1].(*ssa.If)
		if !ok {
			continue
		}
		if bo, isBO := iff.Cond.(*ssa.BinOp); isBO && (bo.Op == token.EQL || bo.Op == token.NEQ) && isNilConst(bo.Y) {
			if ex, isEx := bo.X.(*ssa.Extract); isEx {
				if call, isCall := ex.Tuple.(*ssa.Call); isCall && strings.HasPrefix(calleeName(&call.Call), "(*encoding/base64.Encoding).Decode") {
					if bo.Op == token.EQL {
						excused[edge{b, 1}] = true
					} else {
						excused[edge{b, 0}] = true
					}
				}
			}
		}
	}
	seen := map[*ssa.BasicBlock]bool{}
	var stack []*ssa.BasicBlock
	if !appends[h.Blocks[0]] {
		stack = append(stack, h.Blocks[0])
	}
	for len(stack) > 0 {
		b := stack[len(stack)-1]
		stack = stack[:len(stack)-1]
		if seen[b] {
			continue
		}
		seen[b] = true
		for i, s := range b.Succs {
			if appends[s] || excused[edge{b, i}] {
				continue
			}
			stack = append(stack, s)
		}
	}
	for _, r := range returnsOf(h) {
		if seen[r.Block()] {
			return false
		}
	}
	return true
}

// fromScreenEncoder: v holds output of the screen's encoder: the result of transform.Bytes / String /
// Append with the `encoder` field as transformer, of a method invoked on it, or the destination buffer
// of its Transform.
func fromScreenEncoder(v ssa.Value, depth int) bool {
	if depth > 4 {
		return false
	}
	isEnc := func(a ssa.Value) bool {
		for {
			switch y := a.(type) {
			case *ssa.ChangeInterface:
				a = y.X
				continue
			case *ssa.MakeInterface:
				a = y.X
				continue
			}
			break
		}
		ref, _, ok := loadedField(a)
		return ok && ref.Name == "encoder"
	}
	switch x := v.(type) {
	case *ssa.Extract:
		return fromScreenEncoder(x.Tuple, depth+1)
	case *ssa.Slice:
		return fromScreenEncoder(x.X, depth+1)
	case *ssa.Phi:
		for _, e := range x.Edges {
			if fromScreenEncoder(e, depth+1) {
				return true
			}
		}
	case *ssa.Call:
		if x.Call.IsInvoke() {
			return isEnc(x.Call.Value)
		}
		for _, a := range x.Call.Args {
			if isEnc(a) {
				return true
			}
		}
	case *ssa.Alloc, *ssa.MakeSlice:
		// a buffer: the destination of the encoder's Transform
		for _, r := range referrers(v) {
			var user ssa.Value
			switch y := r.(type) {
			case *ssa.Slice:
				user = y
			default:
				continue
			}
			for _, r2 := range referrers(user) {
				if cc := callCommon(r2); cc != nil && cc.IsInvoke() && cc.Method.Name() == "Transform" && len(cc.Args) == 3 && cc.Args[0] == user && isEnc(cc.Value) {
					return true
				}
			}
		}
		if ms, ok := v.(*ssa.MakeSlice); ok {
			for _, r2 := range referrers(ms) {
				if cc := callCommon(r2); cc != nil && cc.IsInvoke() && cc.Method.Name() == "Transform" && len(cc.Args) == 3 && cc.Args[0] == ssa.Value(ms) && isEnc(cc.Value) {
					return true
				}
			}
		}
	}
	return false
}

package main

import (
	"fmt"
	"strings"
)

// T3 — strict ECMA-48 tokenizer for control strings assembled from source constants.

type ecmaTok struct {
	kind   string // csi | osc | dcs | esc | c0 | text
	params string // CSI parameter bytes
	inter  string
	final  byte
	body   string // OSC/DCS body, text run
}

func (t ecmaTok) String() string {
	switch t.kind {
	case "csi":
		return fmt.Sprintf("CSI %s%s%c", t.params, t.inter, t.final)
	case "osc", "dcs":
		return fmt.Sprintf("%s %q", strings.ToUpper(t.kind), t.body)
	case "esc":
		return fmt.Sprintf("ESC %s%c", t.inter, t.final)
	case "c0":
		return fmt.Sprintf("C0 %#02x", t.final)
	}
	return fmt.Sprintf("text %q", t.body)
}

// strMarker stands for a string parameter (%s); legal only inside an OSC/DCS body.
const strMarker = "\x1fS\x1f"

var allowedC0 = map[byte]bool{0x07: true, 0x08: true, 0x09: true, 0x0a: true, 0x0b: true, 0x0c: true, 0x0d: true, 0x0e: true, 0x0f: true}

// ecmaTokenize parses s into complete control sequences and text; any
// incomplete/ill-formed sequence, stray parameter-language residue inside a
// sequence, negative number or disallowed control byte is an error.
func ecmaTokenize(s string) ([]ecmaTok, error) {
	var out []ecmaTok
	i := 0
	n := len(s)
	for i < n {
		c := s[i]
		switch {
		case c == 0x1b || c == 0x9b || c == 0x9d || c == 0x90:
			intro := c
			j := i + 1
			if c == 0x1b {
				if j >= n {
					return nil, fmt.Errorf("ESC at end of string")
				}
				switch s[j] {
				case '[':
					intro = 0x9b
					j++
				case ']':
					intro = 0x9d
					j++
				case 'P':
					intro = 0x90
					j++
				}
			}
			switch intro {
			case 0x9b:
				k := j
				for k < n && s[k] >= 0x30 && s[k] <= 0x3f {
					k++
				}
				params := s[j:k]
				m := k
				for m < n && s[m] >= 0x20 && s[m] <= 0x2f {
					if s[m] == '%' {
						return nil, fmt.Errorf("parameter-language residue in CSI %q", s[i:])
					}
					m++
				}
				if m >= n {
					return nil, fmt.Errorf("unterminated CSI %q", s[i:])
				}
				if s[m] < 0x40 || s[m] > 0x7e {
					return nil, fmt.Errorf("CSI with illegal byte %#02x in %q", s[m], s[i:m+1])
				}
				// numeric parameters only: optional private marker then digits ; :
				pp := params
				if len(pp) > 0 && strings.IndexByte("?><=", pp[0]) >= 0 {
					pp = pp[1:]
				}
				for x := 0; x < len(pp); x++ {
					if !((pp[x] >= '0' && pp[x] <= '9') || pp[x] == ';' || pp[x] == ':') {
						return nil, fmt.Errorf("CSI parameter %q is not numeric", params)
					}
				}
				out = append(out, ecmaTok{kind: "csi", params: params, inter: s[k:m], final: s[m]})
				i = m + 1
			case 0x9d, 0x90:
				kind := "osc"
				if intro == 0x90 {
					kind = "dcs"
				}
				k := j
				end := -1
				next := -1
				for k < n {
					if s[k] == 0x07 && kind == "osc" {
						end, next = k, k+1
						break
					}
					if s[k] == 0x1b && k+1 < n && s[k+1] == '\\' {
						end, next = k, k+2
						break
					}
					if s[k] == 0x9c {
						end, next = k, k+1
						break
					}
					k++
				}
				if end < 0 {
					return nil, fmt.Errorf("unterminated %s string %q", strings.ToUpper(kind), s[i:])
				}
				body := strings.ReplaceAll(s[j:end], strMarker, "⟨str⟩")
				for x := 0; x < len(body); x++ {
					if body[x] < 0x20 || body[x] == 0x7f {
						return nil, fmt.Errorf("%s body contains control byte %#02x", strings.ToUpper(kind), body[x])
					}
				}
				if strings.Contains(body, "%") && !strings.Contains(s[j:end], strMarker) {
					return nil, fmt.Errorf("%s body contains parameter-language residue %q", strings.ToUpper(kind), body)
				}
				out = append(out, ecmaTok{kind: kind, body: body})
				i = next
			default:
				// ESC intermediates final
				k := j
				for k < n && s[k] >= 0x20 && s[k] <= 0x2f {
					if s[k] == '%' {
						return nil, fmt.Errorf("parameter-language residue in escape sequence %q", s[i:])
					}
					k++
				}
				if k >= n {
					return nil, fmt.Errorf("unterminated escape sequence %q", s[i:])
				}
				if s[k] < 0x30 || s[k] > 0x7e {
					return nil, fmt.Errorf("escape sequence with illegal final %#02x", s[k])
				}
				out = append(out, ecmaTok{kind: "esc", inter: s[j:k], final: s[k]})
				i = k + 1
			}
		case c < 0x20 || c == 0x7f:
			if !allowedC0[c] {
				return nil, fmt.Errorf("disallowed control byte %#02x", c)
			}
			out = append(out, ecmaTok{kind: "c0", final: c})
			i++
		default:
			k := i
			for k < n && s[k] >= 0x20 && s[k] != 0x7f && s[k] != 0x9b && s[k] != 0x9d && s[k] != 0x90 {
				k++
			}
			out = append(out, ecmaTok{kind: "text", body: s[i:k]})
			i = k
		}
	}
	return out, nil
}

// pureControl: the string consists of control sequences and C0 controls only (no printable residue).
func pureControl(toks []ecmaTok) (bool, string) {
	for _, t := range toks {
		if t.kind == "text" {
			return false, t.body
		}
	}
	return true, ""
}

func ecmaSelfTest() error {
	good := []string{"\x1b[1;2H", "\x1b[?1049h", "\x1b(B\x1b[m", "\x1b]2;" + strMarker + "\x1b\\", "\x1b]112\a", "\x1b[38:2::1:2:3m", "\x1b[0 q", "\x1b>", "\x0f", "\x1b[8;24;80t", "\x1b[>2t"}
	for _, g := range good {
		if _, err := ecmaTokenize(g); err != nil {
			return fmt.Errorf("ecma self-test: %q rejected: %v", g, err)
		}
	}
	bad := []string{"\x1b[1;2", "\x1b[-1;2H", "\x1b]2;title", "\x1b[%p1%dm", "\x1b", "\x1b[1;\x1bH", "\x1b[" + strMarker + "m", "\x00"}
	for _, b := range bad {
		if _, err := ecmaTokenize(b); err == nil {
			return fmt.Errorf("ecma self-test: %q accepted", b)
		}
	}
	return nil
}

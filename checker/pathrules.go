package main

import (
	"fmt"
	"go/ast"
	"go/constant"
	"go/types"
	"regexp"
	"strings"

	"golang.org/x/tools/go/packages"
	"golang.org/x/tools/go/ssa"
)

// existsPathAvoiding reports whether some path from just after `from` to a
// function exit (Return or Panic) passes none of the instructions in stop.
func existsPathAvoiding(from ssa.Instruction, stop map[ssa.Instruction]bool) bool {
	b := from.Block()
	idx := instrIndex(from)
	seen := map[*ssa.BasicBlock]bool{}
	var walkBlock func(b *ssa.BasicBlock, start int) bool
	walkBlock = func(b *ssa.BasicBlock, start int) bool {
		if deadBlock(b) {
			return false
		}
		for i := start; i < len(b.Instrs); i++ {
			in := b.Instrs[i]
			if stop[in] {
				return false
			}
			switch in.(type) {
			case *ssa.Return:
				return true
			}
		}
		for _, s := range b.Succs {
			if seen[s] {
				continue
			}
			seen[s] = true
			if walkBlock(s, 0) {
				return true
			}
		}
		return false
	}
	return walkBlock(b, idx+1)
}

// existsPathFromEntryAvoiding: is `target` reachable from function entry on a path avoiding stop?
func existsPathFromEntryAvoiding(fn *ssa.Function, target ssa.Instruction, stop map[ssa.Instruction]bool) bool {
	seen := map[*ssa.BasicBlock]bool{}
	var walk func(b *ssa.BasicBlock) bool
	walk = func(b *ssa.BasicBlock) bool {
		if seen[b] || deadBlock(b) {
			return false
		}
		seen[b] = true
		for _, in := range b.Instrs {
			if in == target {
				return true
			}
			if stop[in] {
				return false
			}
		}
		for _, s := range b.Succs {
			if walk(s) {
				return true
			}
		}
		return false
	}
	if len(fn.Blocks) == 0 {
		return false
	}
	return walk(fn.Blocks[0])
}

// guardedByCall: does block b execute only when a call whose callee name has
// the given suffix returned `want`?
func guardedByCall(b *ssa.BasicBlock, calleeSuffix string, want bool) bool {
	for _, g := range guardsAt(b) {
		if strings.Contains(g.L, calleeSuffix+"(") {
			if (g.Op == "==" && g.R == "true") == want && (g.R == "true" || g.R == "false") {
				if g.Op == "==" {
					return (g.R == "true") == want
				}
				if g.Op == "!=" {
					return (g.R == "false") == want
				}
			}
		}
	}
	return false
}

// checkDirtyGate: in a backend's drawCell, every emission is dominated by the
// true edge of CellBuffer.Dirty and every clean-mark is tied to an emission.
func checkDirtyGate(c *Ctx, p *Prog, fn *ssa.Function, rule string, isEmit func(ssa.Instruction) bool, minEmit int) {
	short := fn.RelString(fn.Pkg.Pkg)
	var emits, cleans []ssa.Instruction
	for _, f := range withClosures(fn) {
		eachInstr(f, func(in ssa.Instruction) {
			if isEmit(in) {
				emits = append(emits, in)
			}
			cc := callCommon(in)
			if cc != nil && strings.HasSuffix(calleeName(cc), "CellBuffer).SetDirty") && len(cc.Args) == 4 {
				if v, ok := constBool(cc.Args[3]); ok && !v {
					cleans = append(cleans, in)
				}
			}
		})
	}
	if len(emits) < minEmit {
		c.Undecided(rule, short+":emissions", p.pos(fn.Pos()), "expected at least one emission site in the cell painter")
		return
	}
	if len(cleans) == 0 {
		c.Fail(rule, short+":clean-mark", p.pos(fn.Pos()), "painter never marks the cell clean")
	}
	inClosure := func(in ssa.Instruction) bool { return in.Parent() != fn }
	for _, e := range emits {
		if inClosure(e) {
			// deferred corner-fix closure: it is registered under the Dirty gate
			var reg ssa.Instruction
			eachInstr(fn, func(in ssa.Instruction) {
				if d, ok := in.(*ssa.Defer); ok {
					if staticCallee(&d.Call) == e.Parent() {
						reg = in
					}
				}
			})
			ok := reg != nil && guardedByCall(reg.Block(), "CellBuffer).Dirty", true)
			c.Check(ok, rule, short+":emit-in-deferred@"+emitName(e), p.pos(e.Pos()), "deferred emission registered under the Dirty true edge")
			continue
		}
		ok := guardedByCall(e.Block(), "CellBuffer).Dirty", true)
		c.Check(ok, rule, short+":emit@"+emitName(e), p.pos(e.Pos()), "emission dominated by the true edge of CellBuffer.Dirty")
	}
	emitSet := map[ssa.Instruction]bool{}
	for _, e := range emits {
		emitSet[e] = true
	}
	for _, s := range cleans {
		if inClosure(s) {
			continue
		}
		ok := guardedByCall(s.Block(), "CellBuffer).Dirty", true)
		// tied to an emission: some emission dominates it, or it is followed by one on every path
		tied := false
		for _, e := range emits {
			if !inClosure(e) && instrDominates(e, s) {
				tied = true
			}
		}
		if !tied && !existsPathAvoiding(s, emitSet) {
			tied = true
		}
		c.Check(ok && tied, rule, short+":clean-after-paint", p.pos(s.Pos()), "SetDirty(false) only under Dirty and only together with the payload write")
	}
	// and the other way round: a cell that was painted is marked clean on every way out,
	// otherwise it is painted again by every later Show although nothing changed
	stop := map[ssa.Instruction]bool{}
	for _, cl := range cleans {
		stop[cl] = true
	}
	left := ""
	if recvTypeName(fn) == "tcell.simscreen" {
		// the simulation's "emissions" are stores into its front buffer: repeating one is not
		// observable, so an unmarked path (a wide rune cut off at the right edge) costs nothing
		return
	}
	eachInstr(fn, func(in ssa.Instruction) {
		if !isEmit(in) || deadBlock(in.Block()) {
			return
		}
		for _, cl := range cleans {
			if !inClosure(cl) && instrDominates(cl, in) {
				return // already marked clean on every path to this emission
			}
		}
		if reachesReturnAvoiding(in, stop) {
			left += fmt.Sprintf("after the emission at %s (%s) the function can return without SetDirty(x,y,false); ", p.pos(in.Pos()), emitName(in))
		}
	})
	c.Check(left == "", rule, short+":painted-implies-clean", p.pos(fn.Pos()), "a painted cell is marked clean: SetDirty(x,y,false) precedes the emission or lies on every path from it to a return "+left)
}

// reachesReturnAvoiding: some path from just after `from` reaches a return
// of the function without executing any instruction of stop.
func reachesReturnAvoiding(from ssa.Instruction, stop map[ssa.Instruction]bool) bool {
	seen := map[*ssa.BasicBlock]bool{}
	var walk func(b *ssa.BasicBlock, at int) bool
	walk = func(b *ssa.BasicBlock, at int) bool {
		for i := at; i < len(b.Instrs); i++ {
			if stop[b.Instrs[i]] {
				return false
			}
			if _, ok := b.Instrs[i].(*ssa.Return); ok {
				return true
			}
		}
		for _, sc := range b.Succs {
			if seen[sc] || deadBlock(sc) {
				continue
			}
			seen[sc] = true
			if walk(sc, 0) {
				return true
			}
		}
		return false
	}
	return walk(from.Block(), instrIndex(from)+1)
}

var regSuffix = regexp.MustCompile(`@t[0-9]+`)

func emitName(in ssa.Instruction) string {
	cc := callCommon(in)
	if cc == nil {
		if st, ok := in.(*ssa.Store); ok {
			if ref, _, ok := fieldAddrRef(st.Addr); ok {
				return "store(" + ref.Name + ")"
			}
		}
		return "?"
	}
	n := calleeName(cc)
	if i := strings.LastIndex(n, "."); i >= 0 {
		n = n[i+1:]
	}
	if len(cc.Args) > 1 {
		a := valName(cc.Args[1])
		if len(a) > 40 {
			a = a[:40]
		}
		n += "(" + a + ")"
	}
	return regSuffix.ReplaceAllString(n, "")
}

// ---- T1 helpers: constant tables from the typed AST ---------------------

// findVarDecl returns the initialiser expression of package-level var obj.
func findVarDecl(pk *packages.Package, obj types.Object) ast.Expr {
	for _, f := range pk.Syntax {
		for _, d := range f.Decls {
			gd, ok := d.(*ast.GenDecl)
			if !ok {
				continue
			}
			for _, sp := range gd.Specs {
				vs, ok := sp.(*ast.ValueSpec)
				if !ok {
					continue
				}
				for i, n := range vs.Names {
					if pk.TypesInfo.Defs[n] == obj && i < len(vs.Values) {
						return vs.Values[i]
					}
				}
			}
		}
	}
	return nil
}

// mapLiteralInts evaluates `var x = map[K]V{k: v, ...}` with constant integer keys and values.
func mapLiteralInts(pk *packages.Package, obj types.Object) map[int64]int64 {
	e := findVarDecl(pk, obj)
	cl, ok := e.(*ast.CompositeLit)
	if !ok {
		return nil
	}
	out := map[int64]int64{}
	for _, el := range cl.Elts {
		kv, ok := el.(*ast.KeyValueExpr)
		if !ok {
			return nil
		}
		k, ok1 := intConst(pk.TypesInfo, kv.Key)
		v, ok2 := intConst(pk.TypesInfo, kv.Value)
		if !ok1 || !ok2 {
			return nil
		}
		if _, dup := out[k]; dup {
			return nil
		}
		out[k] = v
	}
	return out
}

func intConst(info *types.Info, e ast.Expr) (int64, bool) {
	tv, ok := info.Types[e]
	if !ok || tv.Value == nil {
		return 0, false
	}
	if tv.Value.Kind() != constant.Int {
		return 0, false
	}
	return constant.Int64Val(tv.Value)
}

func strConst(info *types.Info, e ast.Expr) (string, bool) {
	tv, ok := info.Types[e]
	if !ok || tv.Value == nil || tv.Value.Kind() != constant.String {
		return "", false
	}
	return constant.StringVal(tv.Value), true
}

// ---- feasible paths --------------------------------------------------------
//
// Dominance is too strict for "B happens before C on every path" when the code tests the same condition
// twice:   w := t.running; if w { drain() }; unlock(); if !w { return }; stop()
// drain() does not dominate stop(), yet every path that reaches stop() took the w-edge both times.
// feasiblePathAvoiding enumerates paths that are consistent in the branch conditions they take: a path
// may not leave two If instructions on edges that contradict each other about the same SSA value (or
// about a value and its negation).  A condition's recorded outcome is forgotten when the path re-enters
// the block that computes it (a new loop iteration computes a new value).  The search is bounded; when
// the bound is hit the answer is "a path exists" (the conservative answer for a must-precede rule).

func condKey(v ssa.Value) (ssa.Value, bool) {
	pos := true
	for {
		u, ok := v.(*ssa.UnOp)
		if ok && u.Op.String() == "!" {
			v, pos = u.X, !pos
			continue
		}
		return v, pos
	}
}

// feasiblePathAvoiding: is there a branch-consistent path from `from` (nil: the function entry) to
// target (nil: any return) that passes none of the instructions in stop?
func feasiblePathAvoiding(fn *ssa.Function, from, target ssa.Instruction, stop map[ssa.Instruction]bool) bool {
	if len(fn.Blocks) == 0 {
		return false
	}
	type frame struct {
		b     *ssa.BasicBlock
		start int
	}
	budget := 20000
	onPath := map[*ssa.BasicBlock]int{}
	var walk func(b *ssa.BasicBlock, start int, known map[ssa.Value]bool) bool
	walk = func(b *ssa.BasicBlock, start int, known map[ssa.Value]bool) bool {
		if budget <= 0 {
			return true
		}
		budget--
		if deadBlock(b) || onPath[b] >= 2 {
			return false
		}
		onPath[b]++
		defer func() { onPath[b]-- }()
		// values computed in this block are new on this visit
		var forgotten []ssa.Value
		for v := range known {
			if in, ok := v.(ssa.Instruction); ok && in.Block() == b && start == 0 {
				forgotten = append(forgotten, v)
			}
		}
		if len(forgotten) > 0 {
			k2 := map[ssa.Value]bool{}
			for v, o := range known {
				k2[v] = o
			}
			for _, v := range forgotten {
				delete(k2, v)
			}
			known = k2
		}
		for i := start; i < len(b.Instrs); i++ {
			in := b.Instrs[i]
			if target != nil && in == target {
				return true
			}
			if stop[in] {
				return false
			}
			if _, isRet := in.(*ssa.Return); isRet {
				return target == nil
			}
			if iff, isIf := in.(*ssa.If); isIf {
				v, pos := condKey(iff.Cond)
				for idx, s := range b.Succs {
					taken := (idx == 0) == pos // the value of v on this edge
					if o, ok := known[v]; ok && o != taken {
						continue
					}
					k2 := known
					if _, ok := known[v]; !ok {
						k2 = map[ssa.Value]bool{}
						for kv, o := range known {
							k2[kv] = o
						}
						k2[v] = taken
					}
					if walk(s, 0, k2) {
						return true
					}
				}
				return false
			}
		}
		for _, s := range b.Succs {
			if walk(s, 0, known) {
				return true
			}
		}
		return false
	}
	if from == nil {
		return walk(fn.Blocks[0], 0, map[ssa.Value]bool{})
	}
	return walk(from.Block(), instrIndex(from)+1, map[ssa.Value]bool{})
}

// mustPrecede: on every branch-consistent path from the function entry to `later`, one of `earlier`
// has been passed.
func mustPrecede(fn *ssa.Function, earlier []ssa.Instruction, later ssa.Instruction) bool {
	stop := map[ssa.Instruction]bool{}
	for _, e := range earlier {
		stop[e] = true
	}
	return len(earlier) > 0 && !feasiblePathAvoiding(fn, nil, later, stop)
}

package main

// Rules added after seeding round 13.

import (
	"fmt"
	"go/token"
	"go/types"
	"os"
	"path/filepath"
	"strings"

	"golang.org/x/tools/go/ssa"
)

// checkPushAlwaysAppends: every operand pushed is there to be popped: each return of stack.Push is an
// append to the stack it was given (a bounded stack that ignores the push loses operands of deep but
// well-formed expressions).
func checkPushAlwaysAppends(c *Ctx, p *Prog, rule string) {
	fn := p.Fn("terminfo:(stack).Push")
	if fn == nil {
		fn = p.Fn("terminfo:(*stack).Push")
	}
	if fn == nil || len(fn.Params) < 2 {
		c.Undecided(rule, "stack.Push", "-", "not found")
		return
	}
	n, bad := 0, ""
	var isAppend func(v ssa.Value, depth int) bool
	isAppend = func(v ssa.Value, depth int) bool {
		if depth > 4 {
			return false
		}
		switch x := v.(type) {
		case *ssa.Call:
			if b, ok := x.Call.Value.(*ssa.Builtin); ok && b.Name() == "append" {
				return true
			}
		case *ssa.Phi:
			for _, e := range x.Edges {
				if !isAppend(e, depth+1) {
					return false
				}
			}
			return len(x.Edges) > 0
		}
		return false
	}
	pointerRecv := strings.HasPrefix(fn.Params[0].Type().String(), "*")
	for _, r := range returnsOf(fn) {
		n++
		if pointerRecv {
			continue
		}
		if len(r.Results) != 1 || !isAppend(r.Results[0], 0) {
			bad += fmt.Sprintf("the return at %s does not answer an append; ", p.pos(r.Pos()))
		}
	}
	if pointerRecv {
		// pointer form: every return follows a store of an append into the receiver
		stop := map[ssa.Instruction]bool{}
		eachInstr(fn, func(in ssa.Instruction) {
			if st, ok := in.(*ssa.Store); ok && isAppend(st.Val, 0) {
				stop[in] = true
			}
		})
		for _, r := range returnsOf(fn) {
			if existsPathFromEntryAvoiding(fn, r, stop) {
				bad += fmt.Sprintf("the return at %s is reached without an append; ", p.pos(r.Pos()))
			}
		}
	}
	c.Check(n > 0 && bad == "", rule, "stack.Push:every-return-appends", p.pos(fn.Pos()), fmt.Sprintf("%d return(s), each of an append to the stack %s", n, bad))
}

// checkTeardownCompletes: once the teardown has marked the screen as not running, every way out passes
// Tty.Stop (an early return on a Drain error leaves the terminal in its modes for good: the next
// Suspend/Fini sees "not running" and does nothing).
func checkTeardownCompletes(c *Ctx, p *Prog, rule string) {
	var fn *ssa.Function
	var stopCall ssa.Instruction
	var methods []*ssa.Function
	for _, f := range p.modFns {
		if f.Pkg != p.Tcell || recvTypeName(topFunc(f)) != "tcell.tScreen" || f.Parent() != nil || len(f.Blocks) == 0 {
			continue
		}
		methods = append(methods, f)
		eachInstr(f, func(in ssa.Instruction) {
			cc := callCommon(in)
			if cc != nil && cc.IsInvoke() && typeName(cc.Value.Type()) == "tcell.Tty" && cc.Method.Name() == "Stop" {
				fn, stopCall = f, in
			}
		})
	}
	if fn == nil {
		c.Undecided(rule, "teardown", "-", "the tScreen method calling Tty.Stop was not found")
		return
	}
	storesNotRunning := func(f *ssa.Function) []ssa.Instruction {
		var out []ssa.Instruction
		eachInstr(f, func(in ssa.Instruction) {
			if st, ok := in.(*ssa.Store); ok {
				if ref, _, isF := fieldAddrRef(st.Addr); isF && ref.Owner == "tcell.tScreen" && ref.Name == "running" {
					if v, isB := constBool(st.Val); isB && !v {
						out = append(out, in)
					}
				}
			}
		})
		return out
	}
	// a mark is the store itself, or the call of a helper that makes it; for a helper that answers a
	// constant on every return after the store, the caller's returns under the opposite answer are not
	// ways "after the mark"
	type mark struct {
		in      ssa.Instruction
		answer  ssa.Value // the helper's result, when its value after the store is known
		after   bool      // that value
		hasPole bool
	}
	marksOf := func(f *ssa.Function) []mark {
		var out []mark
		for _, st := range storesNotRunning(f) {
			out = append(out, mark{in: st})
		}
		eachInstr(f, func(in ssa.Instruction) {
			call, ok := in.(*ssa.Call)
			if !ok {
				return
			}
			h := call.Call.StaticCallee()
			if h == nil || h == f || h.Pkg != p.Tcell || recvTypeName(h) != "tcell.tScreen" || len(h.Blocks) == 0 {
				return
			}
			sts := storesNotRunning(h)
			if len(sts) == 0 {
				return
			}
			m := mark{in: in}
			seenT, seenF, other := false, false, false
			for _, st := range sts {
				for _, r := range returnsOf(h) {
					if !existsPathAvoidingTo(st, r, nil) {
						continue
					}
					if len(r.Results) == 1 {
						if v, isB := returnedConstBool(r, 0); isB {
							if v {
								seenT = true
							} else {
								seenF = true
							}
							continue
						}
					}
					other = true
				}
			}
			if !other && seenT != seenF {
				m.answer, m.after, m.hasPole = call, seenT, true
			}
			out = append(out, m)
		})
		return out
	}
	host, stop := fn, map[ssa.Instruction]bool{stopCall: true}
	marks := marksOf(fn)
	if len(marks) == 0 {
		// the Tty is stopped one call down: the teardown is the caller that makes the mark, provided
		// the helper reaches Tty.Stop on every way through it
		through := true
		for _, r := range returnsOf(fn) {
			if existsPathFromEntryAvoiding(fn, r, stop) {
				through = false
			}
		}
		for _, f := range methods {
			if f == fn || !through {
				continue
			}
			ms := marksOf(f)
			if len(ms) == 0 {
				continue
			}
			calls := callsIn(f, func(_ string, cc *ssa.CallCommon) bool { return cc.StaticCallee() == fn })
			if len(calls) == 0 {
				continue
			}
			host, marks = f, ms
			stop = map[ssa.Instruction]bool{}
			for _, cl := range calls {
				stop[cl] = true
			}
		}
	}
	if len(marks) == 0 {
		c.Undecided(rule, fn.Name()+":running=false", p.pos(fn.Pos()), "the store that marks the screen as not running was not found in the function that stops the Tty, in a helper it calls or in its caller")
		return
	}
	// a return under the opposite of a condition that holds at the mark (same SSA value) is not after it
	contradicts := func(mb, rb *ssa.BasicBlock) bool {
		for _, gm := range rawGuardsAt(mb) {
			for _, gr := range rawGuardsAt(rb) {
				if gm.Cond == gr.Cond && gm.Positive != gr.Positive {
					return true
				}
			}
		}
		return false
	}
	bad := ""
	for _, m := range marks {
		for _, r := range returnsOf(host) {
			if !existsPathAvoidingTo(m.in, r, stop) {
				continue
			}
			if contradicts(m.in.Block(), r.Block()) {
				continue
			}
			if m.hasPole {
				excused := false
				for _, g := range rawGuardsAt(r.Block()) {
					if g.Cond == m.answer && g.Positive != m.after {
						excused = true
					}
				}
				if excused {
					continue
				}
			}
			bad += fmt.Sprintf("the return at %s is reached after running=false without Tty.Stop; ", p.pos(r.Pos()))
		}
	}
	c.Check(bad == "", rule, host.Name()+":stops-the-tty-once-marked-not-running", p.pos(host.Pos()), "every way out after running=false passes Tty.Stop "+bad)
}

// checkWideDirtyIgnoresLock: changing a wide rune dirties every column it covered, whatever the state of
// the base cell's lock (the covered column is a cell of its own).
func checkWideDirtyIgnoresLock(c *Ctx, p *Prog, rule string) {
	fn := p.Fn("tcell:(*CellBuffer).SetContent")
	lk := p.Fn("tcell:(*CellBuffer).LockCell")
	if fn == nil || lk == nil {
		c.Undecided(rule, "CellBuffer.SetContent", "-", "SetContent or LockCell not found")
		return
	}
	lockField := ""
	eachInstr(lk, func(in ssa.Instruction) {
		if st, ok := in.(*ssa.Store); ok {
			if ref, _, isF := fieldAddrRef(st.Addr); isF {
				if v, isB := constBool(st.Val); isB && v {
					lockField = ref.Owner + "." + ref.Name
				}
			}
		}
	})
	if lockField == "" {
		c.Undecided(rule, "CellBuffer.LockCell:field", p.pos(lk.Pos()), "the field LockCell sets was not found")
		return
	}
	var mentionsLock func(v ssa.Value, depth int) bool
	mentionsLock = func(v ssa.Value, depth int) bool {
		if depth > 6 || v == nil {
			return false
		}
		if u, ok := v.(*ssa.UnOp); ok && u.Op == token.MUL {
			if ref, _, isF := fieldAddrRef(u.X); isF && ref.Owner+"."+ref.Name == lockField {
				return true
			}
		}
		if in, ok := v.(ssa.Instruction); ok {
			for _, op := range in.Operands(nil) {
				if *op != nil && mentionsLock(*op, depth+1) {
					return true
				}
			}
		}
		return false
	}
	n, bad := 0, ""
	for _, d := range deepInstrs(p, fn, 1, nil) {
		cc := callCommon(d.in)
		if cc == nil || !strings.HasSuffix(calleeName(cc), ".SetDirty") {
			continue
		}
		n++
		for _, g := range rawGuardsAt(d.in.Block()) {
			if mentionsLock(g.Cond, 0) {
				bad += fmt.Sprintf("the dirtying at %s depends on the cell's lock; ", p.pos(d.in.Pos()))
			}
		}
	}
	c.Check(n > 0 && bad == "", rule, "SetContent:covered-columns-dirtied-whatever-the-lock", p.pos(fn.Pos()), fmt.Sprintf("%d dirtying call(s) in SetContent, none under a test of the lock flag %s", n, bad))
}

func isEventChan(t types.Type) bool {
	ch, ok := t.Underlying().(*types.Chan)
	return ok && typeName(ch.Elem()) == "tcell.Event"
}

// checkOnlyConsumersReceive: an event that is in the queue is delivered: only the consumer side
// (baseScreen's PollEvent, ChannelEvents, HasPendingEvent) takes events out of a queue; no producer
// "makes room" by receiving.
func checkOnlyConsumersReceive(c *Ctx, p *Prog, rule string) {
	n, bad := 0, ""
	for _, f := range p.modFns {
		if f.Pkg != p.Tcell {
			continue
		}
		owner := recvTypeName(topFunc(f))
		eachInstr(f, func(in ssa.Instruction) {
			recv := false
			switch x := in.(type) {
			case *ssa.UnOp:
				recv = x.Op == token.ARROW && isEventChan(x.X.Type())
			case *ssa.Select:
				for _, st := range x.States {
					if st.Dir == types.RecvOnly && isEventChan(st.Chan.Type()) {
						recv = true
					}
				}
			}
			if !recv {
				return
			}
			n++
			if owner != "tcell.baseScreen" {
				bad += fmt.Sprintf("%s takes an event out of a queue at %s; ", f.String(), p.pos(in.Pos()))
			}
		})
	}
	c.Check(n > 0 && bad == "", rule, "event-queues:received-by-the-consumer-side-only", "-", fmt.Sprintf("%d receive(s) from an event queue, all in baseScreen's consumer methods %s", n, bad))
}

// checkPostLeavesEventAlone: posting does not write into the caller's event: in PostEvent and
// PostEventWait the event flows into the channel send only.
func checkPostLeavesEventAlone(c *Ctx, p *Prog, rule string) {
	n := 0
	for _, name := range []string{"PostEvent", "PostEventWait"} {
		fn := p.Fn("tcell:(*baseScreen)." + name)
		if fn == nil {
			continue
		}
		n++
		bad := ""
		var ev *ssa.Parameter
		for _, par := range fn.Params[1:] {
			if typeName(par.Type()) == "tcell.Event" {
				ev = par
			}
		}
		if ev == nil {
			c.Undecided(rule, "baseScreen."+name+":event-parameter", p.pos(fn.Pos()), "no parameter of type Event")
			continue
		}
		for _, r := range referrers(ev) {
			switch x := r.(type) {
			case *ssa.Send, *ssa.Select, *ssa.DebugRef:
			case *ssa.BinOp:
				// comparison with nil
			default:
				bad += fmt.Sprintf("the event is used by %T at %s; ", x, p.pos(r.Pos()))
			}
		}
		c.Check(bad == "", rule, "baseScreen."+name+":event-only-sent", p.pos(fn.Pos()), "the posted event flows into the queue only "+bad)
	}
	if n == 0 {
		c.Undecided(rule, "baseScreen.PostEvent", "-", "not found")
	}
}

// checkOverrideBeforeEverySuccess: TCELL_TRUECOLOR is consulted for every name: no successful return of
// LookupTerminfo is reachable without the read of the variable.
func checkOverrideBeforeEverySuccess(c *Ctx, p *Prog, rule string) {
	fn := p.Fn("terminfo:LookupTerminfo")
	if fn == nil {
		c.Undecided(rule, "LookupTerminfo", "-", "not found")
		return
	}
	stop := map[ssa.Instruction]bool{}
	for _, d := range deepInstrs(p, fn, 2, nil) {
		if cc := callCommon(d.in); cc != nil && calleeName(cc) == "os.Getenv" && len(cc.Args) == 1 {
			if s, ok := constString(cc.Args[0]); ok && s == "TCELL_TRUECOLOR" {
				stop[d.anchor] = true
			}
		}
	}
	if len(stop) == 0 {
		c.Undecided(rule, "LookupTerminfo:override-read", p.pos(fn.Pos()), "the read of TCELL_TRUECOLOR was not found")
		return
	}
	n, bad := 0, ""
	for _, r := range returnsOf(fn) {
		if len(r.Results) != 2 || !isNilConst(r.Results[1]) || isNilConst(r.Results[0]) {
			continue
		}
		n++
		if existsPathFromEntryAvoiding(fn, r, stop) {
			bad += fmt.Sprintf("the successful return at %s is reached without consulting TCELL_TRUECOLOR (guards: %v); ", p.pos(r.Pos()), guardsAt(r.Block()))
		}
	}
	c.Check(n > 0 && bad == "", rule, "LookupTerminfo:override-consulted-before-every-success", p.pos(fn.Pos()), fmt.Sprintf("%d successful return(s), each after the read of TCELL_TRUECOLOR %s", n, bad))
}

// checkNameIndexGuarded: GetColor answers ColorDefault for every string that is neither a name nor
// #RRGGBB, the empty string included: each index into the name is behind a test of its length.
func checkNameIndexGuarded(c *Ctx, p *Prog, rule string) {
	fn := p.Fn("tcell:GetColor")
	if fn == nil || len(fn.Params) < 1 {
		c.Undecided(rule, "GetColor", "-", "not found")
		return
	}
	name := fn.Params[0]
	isLenOfName := func(v ssa.Value) bool {
		call, ok := v.(*ssa.Call)
		if !ok {
			return false
		}
		b, isB := call.Call.Value.(*ssa.Builtin)
		return isB && b.Name() == "len" && len(call.Call.Args) == 1 && call.Call.Args[0] == ssa.Value(name)
	}
	n, bad := 0, ""
	eachInstr(fn, func(in ssa.Instruction) {
		var idx ssa.Value
		switch x := in.(type) {
		case *ssa.Lookup:
			if x.X == ssa.Value(name) {
				idx = x.Index
			}
		case *ssa.Index:
			if x.X == ssa.Value(name) {
				idx = x.Index
			}
		case *ssa.Slice:
			if x.X == ssa.Value(name) && (x.Low != nil || x.High != nil) {
				idx = x.Low
				if idx == nil {
					idx = x.High
				}
			}
		}
		if idx == nil {
			return
		}
		n++
		k, isK := constInt(idx)
		if _, isSlice := in.(*ssa.Slice); isSlice {
			k-- // a slice from k needs len >= k, an index at k needs len > k
		}
		ok := false
		for _, g := range rawGuardsAt(in.Block()) {
			// strings.HasPrefix(name, K) holds: the name is at least as long as K
			if call, isCall := g.Cond.(*ssa.Call); isCall && g.Positive && calleeName(&call.Call) == "strings.HasPrefix" && len(call.Call.Args) == 2 && call.Call.Args[0] == ssa.Value(name) {
				if pre, isS := constString(call.Call.Args[1]); isS && isK && int64(len(pre)) > k {
					ok = true
				}
			}
			bo, isBO := g.Cond.(*ssa.BinOp)
			if !isBO || !isLenOfName(bo.X) {
				continue
			}
			l, isL := constInt(bo.Y)
			if !isL || !isK {
				continue
			}
			switch {
			case bo.Op == token.EQL && g.Positive && l > k:
				ok = true
			case bo.Op == token.GTR && g.Positive && l >= k:
				ok = true
			case bo.Op == token.GEQ && g.Positive && l > k:
				ok = true
			case bo.Op == token.LSS && !g.Positive && l > k:
				ok = true
			case bo.Op == token.LEQ && !g.Positive && l >= k:
				ok = true
			case bo.Op == token.NEQ && !g.Positive && l > k:
				ok = true
			}
		}
		if !ok {
			bad += fmt.Sprintf("the index into the name at %s is not behind a test of its length; ", p.pos(in.Pos()))
		}
	})
	c.Check(bad == "", rule, "GetColor:name-indexed-behind-its-length", p.pos(fn.Pos()), fmt.Sprintf("%d index/slice expression(s) on the name, each behind a length test that covers it %s", n, bad))
}

// checkEscapeWaitPerChunk: a sequence that keeps arriving is waited for: every re-arming of the escape
// timer is for the constant wait (a remaining time computed from the first pending byte expires in the
// middle of a sequence spread over several reads).
func checkEscapeWaitPerChunk(c *Ctx, p *Prog, rule string) {
	fn := p.Fn("tcell:(*tScreen).mainLoop")
	if fn == nil {
		c.Undecided(rule, "tScreen.mainLoop", "-", "not found")
		return
	}
	n, bad := 0, ""
	for _, d := range deepInstrs(p, fn, 1, nil) {
		cc := callCommon(d.in)
		if cc == nil || calleeName(cc) != "(*time.Timer).Reset" || len(cc.Args) != 2 {
			continue
		}
		n++
		if _, ok := constInt(d.bindVal(cc.Args[1])); !ok {
			bad += fmt.Sprintf("the wait at %s is not a constant; ", p.pos(d.in.Pos()))
		}
	}
	c.Check(n > 0 && bad == "", rule, "mainLoop:escape-timer-armed-for-the-full-wait", p.pos(fn.Pos()), fmt.Sprintf("%d re-arming(s) of the escape timer, each for a constant duration %s", n, bad))
}

// checkMouseParsersSeeEveryIntroducer: both mouse parsers accept the 8-bit introducer as well as ESC [:
// their calls in the collect loop are not behind a test of the first byte.
func checkMouseParsersSeeEveryIntroducer(c *Ctx, p *Prog, rule string) {
	collect := collectLoopFn(p)
	if collect == nil {
		c.Undecided(rule, "collect loop", "-", "not found")
		return
	}
	var byteTest func(v ssa.Value, depth int) bool
	byteTest = func(v ssa.Value, depth int) bool {
		if depth > 3 || v == nil {
			return false
		}
		switch x := v.(type) {
		case *ssa.BinOp:
			if x.Op == token.EQL || x.Op == token.NEQ {
				if k, ok := constInt(x.Y); ok && k == 0x1b {
					if u, isU := stripConv(x.X).(*ssa.UnOp); isU && u.Op == token.MUL {
						if _, isIA := u.X.(*ssa.IndexAddr); isIA {
							return true
						}
					}
				}
			}
		case *ssa.Phi:
			for _, e := range x.Edges {
				if byteTest(e, depth+1) {
					return true
				}
			}
		case *ssa.UnOp:
			if x.Op == token.NOT {
				return byteTest(x.X, depth+1)
			}
		}
		return false
	}
	n, bad := 0, ""
	for _, d := range deepInstrs(p, collect, 1, nil) {
		cc := callCommon(d.in)
		if cc == nil {
			continue
		}
		nm := calleeName(cc)
		if !strings.HasSuffix(nm, ".parseXtermMouse") && !strings.HasSuffix(nm, ".parseSgrMouse") {
			continue
		}
		n++
		for _, g := range rawGuardsAt(d.in.Block()) {
			if byteTest(g.Cond, 0) {
				bad += fmt.Sprintf("the call at %s is behind a test of the first byte against ESC; ", p.pos(d.in.Pos()))
			}
		}
	}
	c.Check(n >= 2 && bad == "", rule, "collect:mouse-parsers-not-behind-a-first-byte-test", p.pos(collect.Pos()), fmt.Sprintf("%d mouse parser call(s), none behind a comparison of the first byte with ESC %s", n, bad))
}

// checkAcsGlyphsTakenAsGiven: the terminal's own glyph for a rune is what the description says: the
// entry made for an acsc pair does not depend on the value of the glyph byte.  The glyph is found by
// its role: the slice of the description's string that is concatenated into the value stored in a
// map[rune]string of the screen.
func checkAcsGlyphsTakenAsGiven(c *Ctx, p *Prog, rule string) {
	var leaves func(v ssa.Value, out *[]ssa.Value, depth int)
	leaves = func(v ssa.Value, out *[]ssa.Value, depth int) {
		if bo, ok := v.(*ssa.BinOp); ok && bo.Op == token.ADD && depth < 6 {
			leaves(bo.X, out, depth+1)
			leaves(bo.Y, out, depth+1)
			return
		}
		*out = append(*out, v)
	}
	n, bad := 0, ""
	for _, f := range p.modFns {
		if f.Pkg != p.Tcell || recvTypeName(topFunc(f)) != "tcell.tScreen" {
			continue
		}
		eachInstr(f, func(in ssa.Instruction) {
			mu, ok := in.(*ssa.MapUpdate)
			if !ok {
				return
			}
			mt, isM := mu.Map.Type().Underlying().(*types.Map)
			if !isM || (mt.Key().String() != "rune" && mt.Key().String() != "int32") || mt.Elem().String() != "string" {
				return
			}
			var ls []ssa.Value
			leaves(mu.Value, &ls, 0)
			var glyphs []ssa.Value
			for _, l := range ls {
				switch x := stripConv(l).(type) {
				case *ssa.Slice:
					if _, isStr := x.X.Type().Underlying().(*types.Basic); isStr {
						glyphs = append(glyphs, l)
					}
				case *ssa.Index, *ssa.Lookup:
					glyphs = append(glyphs, l)
				}
			}
			if len(ls) < 2 || len(glyphs) == 0 {
				return
			}
			n++
			var onGlyph func(v ssa.Value, depth int) bool
			onGlyph = func(v ssa.Value, depth int) bool {
				if depth > 4 || v == nil {
					return false
				}
				for _, g := range glyphs {
					if v == g || v == stripConv(g) {
						return true
					}
				}
				if _, isCall := v.(*ssa.Call); isCall {
					return false
				}
				if _, isPhi := v.(*ssa.Phi); isPhi {
					return false
				}
				if x, isI := v.(ssa.Instruction); isI {
					for _, op := range x.Operands(nil) {
						if *op != nil && onGlyph(*op, depth+1) {
							return true
						}
					}
				}
				return false
			}
			for _, g := range rawGuardsAt(in.Block()) {
				if bo, isBO := g.Cond.(*ssa.BinOp); isBO && (onGlyph(bo.X, 0) || onGlyph(bo.Y, 0)) {
					bad += fmt.Sprintf("the entry made at %s depends on the value of the glyph byte; ", p.pos(in.Pos()))
				}
			}
		})
	}
	if n == 0 {
		// the table is built in a shape this rule does not read: nothing is judged
		c.Check(true, rule, "tScreen.acs:entry-for-every-pair-whatever-the-glyph", "-", "no map entry concatenated from a slice of the description's string was found: not judged")
		return
	}
	c.Check(bad == "", rule, "tScreen.acs:entry-for-every-pair-whatever-the-glyph", "-", fmt.Sprintf("%d map entr(y/ies) made from acsc pairs, none behind a test of the glyph byte %s", n, bad))
}

// checkSimBytesStartFresh: what GetContents handed out stays as it was after SetSize: the bytes of a
// simulated cell are built in memory made for this drawing (first a nil or fresh slice, then appends),
// never in the array the cell had before.
func checkSimBytesStartFresh(c *Ctx, p *Prog, rule string) {
	fn := p.Fn("tcell:(*simscreen).drawCell")
	if fn == nil {
		c.Undecided(rule, "simscreen.drawCell", "-", "not found")
		return
	}
	isBytes := func(addr ssa.Value) bool {
		ref, _, ok := fieldAddrRef(addr)
		return ok && ref.Owner == "tcell.SimCell" && ref.Name == "Bytes"
	}
	var reuses func(v ssa.Value, depth int) bool // the value is (a slice of) what the field held
	reuses = func(v ssa.Value, depth int) bool {
		if depth > 4 || v == nil {
			return false
		}
		switch x := v.(type) {
		case *ssa.UnOp:
			return x.Op == token.MUL && isBytes(x.X)
		case *ssa.Slice:
			return reuses(x.X, depth+1)
		case *ssa.Phi:
			for _, e := range x.Edges {
				if reuses(e, depth+1) {
					return true
				}
			}
		}
		return false
	}
	fresh := map[ssa.Instruction]bool{}
	var grows []ssa.Instruction
	bad := ""
	eachInstr(fn, func(in ssa.Instruction) {
		st, ok := in.(*ssa.Store)
		if !ok || !isBytes(st.Addr) {
			return
		}
		if call, isCall := st.Val.(*ssa.Call); isCall {
			if b, isB := call.Call.Value.(*ssa.Builtin); isB && b.Name() == "append" {
				grows = append(grows, in)
				return
			}
		}
		if reuses(st.Val, 0) {
			bad += fmt.Sprintf("the store at %s keeps the array the cell had before; ", p.pos(in.Pos()))
			return
		}
		fresh[in] = true
	})
	for _, g := range grows {
		if existsPathFromEntryAvoiding(fn, g, fresh) {
			bad += fmt.Sprintf("the append at %s is reached without a fresh start of the cell's bytes; ", p.pos(g.Pos()))
		}
	}
	c.Check(len(fresh) > 0 && bad == "", rule, "simscreen.drawCell:cell-bytes-start-fresh", p.pos(fn.Pos()), fmt.Sprintf("%d fresh start(s) and %d append(s) of the cell's bytes, every append after a fresh start %s", len(fresh), len(grows), bad))
}

// checkAxisPairing: a horizontal quantity is compared with horizontal ones only.  Values get an axis
// from where they come from — the seeds are parameter positions of the type's methods and the two
// results of a Size() call — and carry it through arithmetic, phis and the fields they are stored in;
// a comparison of an X value with a Y value is reported.
func checkAxisPairing(c *Ctx, p *Prog, rule, construct, owner string, seeds map[string][2][]int, minCmp int) {
	var fns []*ssa.Function
	for _, f := range p.modFns {
		if recvTypeName(topFunc(f)) == owner && len(f.Blocks) > 0 {
			fns = append(fns, f)
		}
	}
	if len(fns) == 0 {
		c.Undecided(rule, construct, "-", "no methods of "+owner+" found")
		return
	}
	const (
		axX = 1
		axY = 2
	)
	val := map[ssa.Value]int{}
	field := map[string]int{}
	seeded := 0
	for _, f := range fns {
		if f.Parent() != nil {
			continue
		}
		if s, ok := seeds[f.Name()]; ok {
			for ax, idxs := range s {
				for _, i := range idxs {
					if i+1 < len(f.Params) {
						val[f.Params[i+1]] = ax + 1
						seeded++
					}
				}
			}
		}
	}
	if seeded == 0 {
		c.Undecided(rule, construct, "-", "none of the seeding methods was found")
		return
	}
	merge := func(a, b int) int {
		if a == 0 {
			return b
		}
		if b == 0 || a == b {
			return a
		}
		return 3 // mixed
	}
	classOf := func(v ssa.Value) int {
		v = stripConv(v)
		if k, ok := val[v]; ok {
			return k
		}
		return 0
	}
	for round := 0; round < 8; round++ {
		changed := false
		set := func(v ssa.Value, k int) {
			if k == 0 {
				return
			}
			if nk := merge(val[v], k); nk != val[v] {
				val[v] = nk
				changed = true
			}
		}
		for _, f := range fns {
			eachInstr(f, func(in ssa.Instruction) {
				switch x := in.(type) {
				case *ssa.Extract:
					if call, ok := x.Tuple.(*ssa.Call); ok {
						nm := calleeName(&call.Call)
						if call.Call.IsInvoke() {
							nm = call.Call.Method.Name()
						}
						if (nm == "Size" || strings.HasSuffix(nm, ".Size")) && call.Type().(*types.Tuple).Len() == 2 {
							set(x, x.Index+1)
						}
					}
				case *ssa.BinOp:
					switch x.Op {
					case token.ADD, token.SUB:
						a, b := classOf(x.X), classOf(x.Y)
						if a != 0 && b != 0 && a != b {
							return
						}
						set(x, merge(a, b))
					}
				case *ssa.Phi:
					k := 0
					for _, e := range x.Edges {
						k = merge(k, classOf(e))
					}
					if k != 3 {
						set(x, k)
					}
				case *ssa.Store:
					if ref, _, ok := fieldAddrRef(x.Addr); ok && ref.Owner == owner {
						if k := classOf(x.Val); k == axX || k == axY {
							if nk := merge(field[ref.Name], k); nk != field[ref.Name] {
								field[ref.Name] = nk
								changed = true
							}
						}
					}
				case *ssa.UnOp:
					if x.Op == token.MUL {
						if ref, _, ok := fieldAddrRef(x.X); ok && ref.Owner == owner {
							if k := field[ref.Name]; k == axX || k == axY {
								set(x, k)
							}
						}
					}
				}
			})
		}
		if !changed {
			break
		}
	}
	n, bad := 0, ""
	for _, f := range fns {
		eachInstr(f, func(in ssa.Instruction) {
			bo, ok := in.(*ssa.BinOp)
			if !ok {
				return
			}
			switch bo.Op {
			case token.LSS, token.LEQ, token.GTR, token.GEQ, token.EQL, token.NEQ:
			default:
				return
			}
			a, b := classOf(bo.X), classOf(bo.Y)
			if (a != axX && a != axY) || (b != axX && b != axY) {
				return
			}
			n++
			if a != b {
				bad += fmt.Sprintf("%s compares a horizontal with a vertical quantity at %s; ", f.Name(), p.pos(in.Pos()))
			}
		})
	}
	c.Check(n >= minCmp && bad == "", rule, construct, "-", fmt.Sprintf("%d comparison(s) between quantities of known axis, each within one axis %s", n, bad))
}

// checkNotMineOnlyBeforeTheDecoder: the incomplete start of a multi-byte character is waited for: once
// parseRune has asked the decoder, its only answers are "complete" and "wait" — a "not a character"
// answer after the decoder loop is accepted only behind a test that the buffer is already longer than
// any character (4 bytes or more).
func checkNotMineOnlyBeforeTheDecoder(c *Ctx, p *Prog, rule string) {
	fn := p.Fn("tcell:(*tScreen).parseRune")
	if fn == nil {
		c.Undecided(rule, "parseRune", "-", "not found")
		return
	}
	var asks []ssa.Instruction
	for _, d := range deepInstrs(p, fn, 1, nil) {
		if cc := callCommon(d.in); cc != nil && strings.HasSuffix(calleeName(cc), ".Transform") {
			asks = append(asks, d.anchor)
		}
	}
	if len(asks) == 0 {
		c.Undecided(rule, "parseRune:decoder", p.pos(fn.Pos()), "the call of the decoder was not found")
		return
	}
	longEnough := func(b *ssa.BasicBlock) bool {
		for _, g := range rawGuardsAt(b) {
			bo, ok := g.Cond.(*ssa.BinOp)
			if !ok {
				continue
			}
			call, isCall := bo.X.(*ssa.Call)
			if !isCall {
				continue
			}
			if bi, isB := call.Call.Value.(*ssa.Builtin); !isB || bi.Name() != "len" {
				continue
			}
			k, isK := constInt(bo.Y)
			if !isK {
				continue
			}
			switch {
			case g.Positive && bo.Op == token.GEQ && k >= 4, g.Positive && bo.Op == token.GTR && k >= 3,
				!g.Positive && bo.Op == token.LSS && k >= 4, !g.Positive && bo.Op == token.LEQ && k >= 3:
				return true
			}
		}
		return false
	}
	n, bad := 0, ""
	for _, r := range returnsOf(fn) {
		if len(r.Results) != 2 {
			continue
		}
		a, okA := constBool(r.Results[0])
		b, okB := constBool(r.Results[1])
		if !okA || !okB || a || b {
			continue
		}
		n++
		after := false
		for _, ask := range asks {
			if existsPathAvoidingTo(ask, r, nil) {
				after = true
			}
		}
		if after && !longEnough(r.Block()) {
			bad += fmt.Sprintf("the answer 'not a character' at %s can follow the decoder's failure on a short buffer (guards: %v); ", p.pos(r.Pos()), guardsAt(r.Block()))
		}
	}
	c.Check(bad == "", rule, "parseRune:not-mine-only-before-the-decoder", p.pos(fn.Pos()), fmt.Sprintf("%d 'not a character' answer(s), none after the decoder was asked about a short buffer %s", n, bad))
}

// checkPaletteSizedByDescription: nearest palette entry for colours the terminal lacks: the palette and
// the identity entries of the colour cache are sized by the description's colour count, not by what
// Colors() reports once direct colour is on (then every index up to 255 would pass as the terminal's
// own).
func checkPaletteSizedByDescription(c *Ctx, p *Prog, rule string) {
	colorsFn := p.Fn("tcell:(*tScreen).Colors")
	if colorsFn == nil {
		c.Undecided(rule, "tScreen.Colors", "-", "not found")
		return
	}
	// the direct-colour flag: what Colors() tests before it answers 1<<24
	flag := ""
	for _, r := range returnsOf(colorsFn) {
		if len(r.Results) == 1 {
			if k, ok := constInt(r.Results[0]); ok && k == 1<<24 {
				for _, g := range rawGuardsAt(r.Block()) {
					if u, isU := g.Cond.(*ssa.UnOp); isU && u.Op == token.MUL {
						if ref, _, isF := fieldAddrRef(u.X); isF {
							flag = ref.Owner + "." + ref.Name
						}
					}
				}
			}
		}
	}
	if flag == "" {
		c.Undecided(rule, "tScreen.Colors:direct-colour-flag", p.pos(colorsFn.Pos()), "the flag under which Colors() answers 1<<24 was not found")
		return
	}
	readsFlag := func(f *ssa.Function) bool {
		hit := false
		for _, d := range deepInstrs(p, f, 2, nil) {
			if u, ok := d.in.(*ssa.UnOp); ok && u.Op == token.MUL {
				if ref, _, isF := fieldAddrRef(u.X); isF && ref.Owner+"."+ref.Name == flag {
					hit = true
				}
			}
		}
		return hit
	}
	var dependsOnFlag func(v ssa.Value, depth int) string
	dependsOnFlag = func(v ssa.Value, depth int) string {
		if depth > 5 || v == nil {
			return ""
		}
		switch x := stripConv(v).(type) {
		case *ssa.Call:
			if callee := x.Call.StaticCallee(); callee != nil && len(callee.Blocks) > 0 && (callee == colorsFn || readsFlag(callee)) {
				return callee.Name() + "()"
			}
		case *ssa.Phi:
			for _, e := range x.Edges {
				if s := dependsOnFlag(e, depth+1); s != "" {
					return s
				}
			}
		case *ssa.UnOp:
			if x.Op == token.MUL {
				if ref, _, isF := fieldAddrRef(x.X); isF && ref.Owner+"."+ref.Name == flag {
					return ref.Name
				}
			}
		case *ssa.BinOp:
			if s := dependsOnFlag(x.X, depth+1); s != "" {
				return s
			}
			return dependsOnFlag(x.Y, depth+1)
		}
		return ""
	}
	n, bad := 0, ""
	for _, f := range p.modFns {
		if f.Pkg != p.Tcell || recvTypeName(topFunc(f)) != "tcell.tScreen" {
			continue
		}
		eachInstr(f, func(in ssa.Instruction) {
			st, ok := in.(*ssa.Store)
			if !ok {
				return
			}
			ref, _, isF := fieldAddrRef(st.Addr)
			if !isF || ref.Owner != "tcell.tScreen" {
				return
			}
			var size ssa.Value
			switch mk := st.Val.(type) {
			case *ssa.MakeMap:
				if mt, isM := mk.Type().Underlying().(*types.Map); isM && typeName(mt.Key()) == "tcell.Color" && typeName(mt.Elem()) == "tcell.Color" {
					size = mk.Reserve
				}
			case *ssa.MakeSlice:
				if sl, isS := mk.Type().Underlying().(*types.Slice); isS && typeName(sl.Elem()) == "tcell.Color" {
					size = mk.Len
				}
			}
			if size == nil {
				return
			}
			n++
			if s := dependsOnFlag(size, 0); s != "" {
				bad += fmt.Sprintf("the size of %s at %s comes from %s, which direct colour changes; ", ref.Name, p.pos(in.Pos()), s)
			}
		})
	}
	c.Check(n > 0 && bad == "", rule, "tScreen:palette-sized-by-the-description", "-", fmt.Sprintf("%d colour table(s) of the screen sized independently of the direct-colour flag %s", n, bad))
}


// jsCallArgs: the argument expressions of the first call of fn( in the page's script, split at the
// top-level commas.
func jsCallArgs(src, fn string) []string {
	i := strings.Index(src, fn+"(")
	for i > 0 && (src[i-1] == '.' || src[i-1] == '_' || src[i-1] >= 'a' && src[i-1] <= 'z' || src[i-1] >= 'A' && src[i-1] <= 'Z') {
		j := strings.Index(src[i+1:], fn+"(")
		if j < 0 {
			return nil
		}
		i += 1 + j
	}
	if i < 0 {
		return nil
	}
	depth, start := 0, i+len(fn)+1
	var args []string
	for k := start; k < len(src); k++ {
		switch src[k] {
		case '(', '[', '{':
			depth++
		case ')', ']', '}':
			if depth == 0 {
				return append(args, strings.TrimSpace(src[start:k]))
			}
			depth--
		case ',':
			if depth == 0 {
				args = append(args, strings.TrimSpace(src[start:k]))
				start = k + 1
			}
		}
	}
	return nil
}

// checkWebModifiersAgreeWithThePage: writer and reader of the callback arguments agree: the modifier a
// Go callback ORs in under args[i].Bool() is the one the page's script passes at position i
// (e.shiftKey, e.altKey, e.ctrlKey, e.metaKey), also through a helper that takes the four booleans.
func checkWebModifiersAgreeWithThePage(c *Ctx, p *Prog, rule string) {
	b, err := os.ReadFile(filepath.Join(c.Repo, "webfiles", "tcell.js"))
	if err != nil {
		c.Undecided(rule, "webfiles/tcell.js", "-", "the page's script could not be read: "+err.Error())
		return
	}
	js := string(b)
	want := map[string]int64{"e.shiftKey": pkgConst(p, "ModShift"), "e.altKey": pkgConst(p, "ModAlt"), "e.ctrlKey": pkgConst(p, "ModCtrl"), "e.metaKey": pkgConst(p, "ModMeta")}
	pairs := []struct{ jsFn, goFn string }{{"onKeyEvent", "onKeyEvent"}, {"onMouseClick", "onMouseEvent"}, {"onMouseMove", "onMouseEvent"}}
	n := 0
	for _, pr := range pairs {
		args := jsCallArgs(js, pr.jsFn)
		fn := p.Fn("tcell:(*wScreen)." + pr.goFn)
		if args == nil || fn == nil {
			c.Undecided(rule, pr.jsFn+":anchors", "-", fmt.Sprintf("call in the script found: %v; Go callback found: %v", args != nil, fn != nil))
			continue
		}
		// position -> modifier the page means
		page := map[int64]int64{}
		for i, a := range args {
			if m, ok := want[a]; ok {
				page[int64(i)] = m
			}
		}
		got := map[int64]int64{}
		bad := ""
		for _, d := range deepInstrs(p, fn, 1, nil) {
			bo, ok := d.in.(*ssa.BinOp)
			if !ok || bo.Op != token.OR {
				continue
			}
			m, isK := constInt(bo.Y)
			if !isK {
				// the modifier comes from a constant table walked by the loop that also walks the
				// arguments: table[j] is ORed in under args[K+j].Bool()
				if typeName(bo.Type()) == "tcell.ModMask" {
					webModTable(p, d, bo, got, &bad)
				}
				continue
			}
			isMod := false
			for _, w := range want {
				if w == m {
					isMod = true
				}
			}
			if !isMod || typeName(bo.Type()) != "tcell.ModMask" {
				continue
			}
			// the innermost test that decides this OR: a Bool() of args[i], possibly bound through a helper's parameter
			for _, g := range rawGuardsAt(d.in.Block()) {
				if !g.Positive {
					continue
				}
				v := stripConv(d.bindVal(g.Cond))
				call, isCall := v.(*ssa.Call)
				if !isCall || !strings.HasSuffix(calleeName(&call.Call), ".Bool") || len(call.Call.Args) < 1 {
					continue
				}
				if u, isU := call.Call.Args[0].(*ssa.UnOp); isU && u.Op == token.MUL {
					if ia, isIA := u.X.(*ssa.IndexAddr); isIA {
						if i, isI := constInt(ia.Index); isI {
							if old, seen := got[i]; seen && old != m {
								bad += fmt.Sprintf("args[%d] decides two modifiers; ", i)
							}
							got[i] = m
						}
					}
				}
			}
		}
		judged := 0
		for i, m := range page {
			n++
			g, seen := got[i]
			if !seen {
				continue // the mapping is held in a table or computed: this position is not judged
			}
			judged++
			if g != m {
				bad += fmt.Sprintf("the page passes %s at position %d, the callback reads it as modifier %#x (want %#x); ", args[i], i, g, m)
			}
		}
		if judged == 0 {
			c.Check(len(page) >= 3, rule, pr.jsFn+":modifier-positions-agree-with-the-page", p.pos(fn.Pos()), fmt.Sprintf("%d modifier argument(s) in the script's call; the callback keeps the mapping in a table or computes it: not judged", len(page)))
			continue
		}
		c.Check(len(page) >= 3 && bad == "", rule, pr.jsFn+":modifier-positions-agree-with-the-page", p.pos(fn.Pos()), fmt.Sprintf("%d modifier argument(s) of the script's %s call, each read as the same modifier by %s %s", len(page), pr.jsFn, pr.goFn, bad))
	}
	_ = n
}

// checkScreenStyleOnlyForDefaultCells: a cell is drawn in its own style: the screen's style stands in
// only for a cell whose whole style is the default (the struct compared as one), not for one that
// merely has default colours and attributes (underline colour and hyperlink are part of the style).
func checkScreenStyleOnlyForDefaultCells(c *Ctx, p *Prog, rule string) {
	fn := p.Fn("tcell:(*wScreen).drawCell")
	if fn == nil {
		c.Undecided(rule, "wScreen.drawCell", "-", "not found")
		return
	}
	n, bad := 0, ""
	eachInstr(fn, func(in ssa.Instruction) {
		u, ok := in.(*ssa.UnOp)
		if !ok || u.Op != token.MUL || typeName(u.Type()) != "tcell.Style" {
			return
		}
		ref, _, isF := fieldAddrRef(u.X)
		if !isF || ref.Owner != "tcell.wScreen" {
			return
		}
		n++
		whole := false
		for _, g := range rawGuardsAt(in.Block()) {
			if bo, isBO := g.Cond.(*ssa.BinOp); isBO && g.Positive && bo.Op == token.EQL && typeName(bo.X.Type()) == "tcell.Style" {
				whole = true
			}
		}
		if !whole {
			bad += fmt.Sprintf("the screen style is taken at %s without the cell's whole style having been compared with the default (guards: %v); ", p.pos(in.Pos()), guardsAt(in.Block()))
		}
	})
	c.Check(n > 0 && bad == "", rule, "wScreen.drawCell:screen-style-only-for-a-wholly-default-cell", p.pos(fn.Pos()), fmt.Sprintf("%d use(s) of the screen style in drawCell, each behind a comparison of the whole cell style %s", n, bad))
}

// checkTtyUsedBehindGuard: further Screen calls do not panic after Fini, also on a screen whose Init found
// no terminal (D57): outside the life-cycle functions (those calling Tty.Start/Stop/Close, and the loops
// they start with `go`) every use of the screen's Tty is behind a non-nil test of it or the running flag.
func checkTtyUsedBehindGuard(c *Ctx, p *Prog, rule string) {
	lifecycle := map[*ssa.Function]bool{}
	var fns []*ssa.Function
	for _, f := range p.modFns {
		if f.Pkg != p.Tcell || recvTypeName(topFunc(f)) != "tcell.tScreen" || len(f.Blocks) == 0 {
			continue
		}
		fns = append(fns, f)
		eachInstr(f, func(in ssa.Instruction) {
			if cc := callCommon(in); cc != nil && cc.IsInvoke() && typeName(cc.Value.Type()) == "tcell.Tty" {
				switch cc.Method.Name() {
				case "Start", "Stop", "Close":
					lifecycle[topFunc(f)] = true
				}
			}
			if g, ok := in.(*ssa.Go); ok {
				if callee := g.Call.StaticCallee(); callee != nil {
					lifecycle[callee] = true
				}
			}
		})
	}
	isTtyLoad := func(v ssa.Value) bool {
		u, ok := v.(*ssa.UnOp)
		if !ok || u.Op != token.MUL {
			return false
		}
		ref, _, isF := fieldAddrRef(u.X)
		return isF && ref.Owner == "tcell.tScreen" && ref.Name == "tty"
	}
	guardedAt := func(b *ssa.BasicBlock) bool {
		for _, g := range rawGuardsAt(b) {
			switch x := g.Cond.(type) {
			case *ssa.BinOp:
				if isTtyLoad(x.X) && isNilConst(x.Y) && ((x.Op == token.NEQ && g.Positive) || (x.Op == token.EQL && !g.Positive)) {
					return true
				}
			case *ssa.UnOp:
				if x.Op == token.MUL && g.Positive {
					if ref, _, isF := fieldAddrRef(x.X); isF && ref.Owner == "tcell.tScreen" && ref.Name == "running" {
						return true
					}
				}
			}
		}
		return false
	}
	n := 0
	for _, f := range fns {
		if lifecycle[topFunc(f)] {
			continue
		}
		f := f
		used, bad := 0, ""
		eachInstr(f, func(in ssa.Instruction) {
			v, ok := in.(ssa.Value)
			if !ok || !isTtyLoad(v) {
				return
			}
			real := false
			for _, r := range referrers(v) {
				switch x := r.(type) {
				case *ssa.BinOp, *ssa.Return, *ssa.DebugRef:
				case *ssa.Store:
					_ = x
				default:
					real = true
				}
			}
			if !real {
				return
			}
			used++
			guarded := guardedAt(in.Block())
			if !guarded {
				// a helper all of whose call sites are behind the guard (or in a life-cycle function)
				sites, open := 0, 0
				for _, caller := range fns {
					for _, cl := range callsIn(caller, func(_ string, cc *ssa.CallCommon) bool { return cc.StaticCallee() == f }) {
						sites++
						if !lifecycle[topFunc(caller)] && !guardedAt(cl.Block()) {
							open++
						}
					}
				}
				guarded = sites > 0 && open == 0
			}
			if !guarded {
				bad += fmt.Sprintf("the Tty is used at %s without a non-nil test or the running flag; ", p.pos(in.Pos()))
			}
		})
		if used == 0 {
			continue
		}
		n++
		c.Check(bad == "", rule, "tScreen."+f.Name()+":tty-used-behind-a-guard", p.pos(f.Pos()), fmt.Sprintf("%d use(s) of the screen's Tty outside the life-cycle functions, each behind a non-nil test or the running flag %s", used, bad))
	}
	if n == 0 {
		c.Undecided(rule, "tScreen:tty-uses", "-", "no use of the Tty outside the life-cycle functions was found")
	}
}


// returnedConstBool: the constant a return answers at position i, also where a deferred call made the
// builder spill the result into a cell that is stored just before the return.
func returnedConstBool(r *ssa.Return, i int) (bool, bool) {
	if v, ok := constBool(r.Results[i]); ok {
		return v, true
	}
	u, ok := r.Results[i].(*ssa.UnOp)
	if !ok || u.Op != token.MUL {
		return false, false
	}
	cell, isAlloc := u.X.(*ssa.Alloc)
	if !isAlloc {
		return false, false
	}
	b := r.Block()
	for {
		for k := len(b.Instrs) - 1; k >= 0; k-- {
			if st, isSt := b.Instrs[k].(*ssa.Store); isSt && st.Addr == ssa.Value(cell) {
				return constBool(st.Val)
			}
		}
		if len(b.Preds) != 1 {
			return false, false
		}
		b = b.Preds[0]
	}
}


// webModTable: `mod |= table[j]` under `args[K+j].Bool()` with table a package-level array or slice that
// nothing writes: records position K+j -> table[j] for every row.
func webModTable(p *Prog, d deepInstr, bo *ssa.BinOp, got map[int64]int64, bad *string) {
	var g *ssa.Global
	var idx ssa.Value
	var fromGlobal func(v ssa.Value, depth int) *ssa.Global
	fromGlobal = func(v ssa.Value, depth int) *ssa.Global {
		if depth > 4 {
			return nil
		}
		switch x := v.(type) {
		case *ssa.Global:
			return x
		case *ssa.UnOp:
			if x.Op == token.MUL {
				return fromGlobal(x.X, depth+1)
			}
		case *ssa.Slice:
			return fromGlobal(x.X, depth+1)
		}
		return nil
	}
	switch y := stripConv(bo.Y).(type) {
	case *ssa.Index:
		g, idx = fromGlobal(y.X, 0), y.Index
	case *ssa.UnOp:
		if ia, ok := y.X.(*ssa.IndexAddr); ok && y.Op == token.MUL {
			g, idx = fromGlobal(ia.X, 0), ia.Index
		}
	}
	if g == nil || idx == nil {
		return
	}
	ce := &constEval{pk: p.pkg(""), globals: map[*ssa.Global]*cv{}}
	tab := ce.global(p, g)
	if tab == nil || tab.kind != cvAgg {
		return
	}
	// the guard: args[K+idx].Bool() or args[idx+K].Bool() or args[idx].Bool()
	for _, gd := range rawGuardsAt(bo.Block()) {
		if !gd.Positive {
			continue
		}
		call, isCall := stripConv(d.bindVal(gd.Cond)).(*ssa.Call)
		if !isCall || !strings.HasSuffix(calleeName(&call.Call), ".Bool") || len(call.Call.Args) < 1 {
			continue
		}
		u, isU := call.Call.Args[0].(*ssa.UnOp)
		if !isU || u.Op != token.MUL {
			continue
		}
		ia, isIA := u.X.(*ssa.IndexAddr)
		if !isIA {
			continue
		}
		base, okBase := int64(0), false
		if ia.Index == idx {
			okBase = true
		} else if add, isAdd := ia.Index.(*ssa.BinOp); isAdd && add.Op == token.ADD {
			if k, isK := constInt(add.X); isK && add.Y == idx {
				base, okBase = k, true
			}
			if k, isK := constInt(add.Y); isK && add.X == idx {
				base, okBase = k, true
			}
		}
		if !okBase {
			continue
		}
		for j, e := range tab.elems {
			if e == nil || e.kind != cvInt {
				continue
			}
			pos := base + int64(j)
			if old, seen := got[pos]; seen && old != e.i {
				*bad += fmt.Sprintf("args[%d] decides two modifiers; ", pos)
			}
			got[pos] = e.i
		}
	}
}

// checkCornerTrickSparesLockedNeighbour: Show never writes a locked cell: the last-cell workaround writes
// the corner's content onto the cell to its left and repaints that cell afterwards — through drawCell,
// which refuses a locked cell.  The workaround must therefore be taken only where the neighbour is known
// not to be locked (a test by a CellBuffer method that reads the lock flag), or repaint it some other way.
func checkCornerTrickSparesLockedNeighbour(c *Ctx, p *Prog, rule string) {
	dc := p.Fn("tcell:(*tScreen).drawCell")
	lk := p.Fn("tcell:(*CellBuffer).LockCell")
	if dc == nil || lk == nil {
		c.Undecided(rule, "drawCell", "-", "drawCell or LockCell not found")
		return
	}
	lockField := ""
	eachInstr(lk, func(in ssa.Instruction) {
		if st, ok := in.(*ssa.Store); ok {
			if ref, _, isF := fieldAddrRef(st.Addr); isF {
				if v, isB := constBool(st.Val); isB && v {
					lockField = ref.Owner + "." + ref.Name
				}
			}
		}
	})
	readsLock := func(f *ssa.Function) bool {
		hit := false
		for _, d := range deepInstrs(p, f, 1, nil) {
			if u, ok := d.in.(*ssa.UnOp); ok && u.Op == token.MUL {
				if ref, _, isF := fieldAddrRef(u.X); isF && ref.Owner+"."+ref.Name == lockField {
					hit = true
				}
			}
		}
		return hit
	}
	var lockTest func(v ssa.Value, depth int) bool
	lockTest = func(v ssa.Value, depth int) bool {
		if depth > 3 || v == nil {
			return false
		}
		switch x := v.(type) {
		case *ssa.Call:
			h := x.Call.StaticCallee()
			return h != nil && recvTypeName(h) == "tcell.CellBuffer" && h.Name() != "Dirty" && readsLock(h)
		case *ssa.UnOp:
			return lockTest(x.X, depth+1)
		case *ssa.Phi:
			for _, e := range x.Edges {
				if lockTest(e, depth+1) {
					return true
				}
			}
		}
		return false
	}
	n, bad := 0, ""
	siteOf := map[*ssa.Function]ssa.Instruction{}
	var all []deepInstr
	for _, f := range withClosures(dc) {
		if f != dc {
			eachInstr(f.Parent(), func(in ssa.Instruction) {
				if mc, ok := in.(*ssa.MakeClosure); ok && mc.Fn == ssa.Value(f) {
					siteOf[f] = in
				}
			})
		}
		all = append(all, deepInstrs(p, f, 1, nil)...)
		eachInstr(f, func(in ssa.Instruction) {
			if df, ok := in.(*ssa.Defer); ok {
				if h := df.Call.StaticCallee(); h != nil && h.Pkg == p.Tcell && len(h.Blocks) > 0 && h.Parent() == nil {
					siteOf[h] = in
					all = append(all, deepInstrs(p, h, 1, nil)...)
				}
			}
		})
	}
	for _, d := range all {
		cc := callCommon(d.in)
		if cc == nil || !strings.HasSuffix(calleeName(cc), "tScreen).TPuts") || len(cc.Args) < 2 {
			continue
		}
		if ref, _, ok := loadedField(d.bindVal(cc.Args[1])); !ok || ref.Name != "InsertChar" {
			continue
		}
		n++
		gs := rawGuardsAt(d.anchor.Block())
		if site := siteOf[d.anchor.Parent()]; site != nil {
			gs = append(gs, rawGuardsAt(site.Block())...)
		}
		spared := false
		for _, g := range gs {
			if lockTest(g.Cond, 0) {
				spared = true
			}
		}
		if !spared {
			bad += fmt.Sprintf("the workaround at %s is taken whatever the lock of the cell it writes on, and repaints it through drawCell, which refuses a locked cell; ", p.pos(d.in.Pos()))
		}
	}
	if n == 0 {
		c.Check(true, rule, "drawCell:corner-trick-spares-a-locked-neighbour", p.pos(dc.Pos()), "no emission of InsertChar: the workaround is not there")
		return
	}
	c.Check(bad == "", rule, "drawCell:corner-trick-spares-a-locked-neighbour", p.pos(dc.Pos()), fmt.Sprintf("%d emission(s) of InsertChar %s", n, bad))
}

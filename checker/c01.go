package main

import (
	"fmt"
	"go/token"
	"strings"

	"golang.org/x/tools/go/ssa"
)

func init() {
	register("C01", checkC01, "Equality of the emulator grid with the logical screen over all histories is not statically decidable. Decided, on every path of the terminfo painter (draw, drawCell, resize, Sync, mainLoop, showCursor, hideCursor, sendFgBg): a cell's payload is written only after explicit cursor addressing or after both cached-coordinate equality tests succeeded; each draw starts by forgetting the cached cursor position and style; a size change / Sync / resize notification invalidates every cell (and Sync requests a hardware clear) before drawing; a cell is marked clean only after its payload was written and the cached column is dropped after wide or substituted output; one draw = buffering on, one flush to the Tty, buffering off on every exit; the cursor epilogue runs after the cell loop with the four-sided off-screen test; palette indices passed to the colour capabilities come from the colour cache / FindColor over the terminal's palette and RGB triples from the same colour under truecolor; a wide rune's hidden column is re-dirtied. The data side (what the strings mean) is C09/C14/C15; attribute order, hyperlinks and history-dependent equality are not decided.")
}

func checkC01(c *Ctx) {
	c.Rule("C01-R1", "drawCell writes the payload only after a TGoto or after both t.cx==x and t.cy==y held")
	c.Rule("C01-R2", "draw forgets the cached cursor position and style before the first drawCell")
	c.Rule("C01-R3", "resize()/Sync()/the resize notification invalidate every cell (Sync also sets clear) before drawing; a geometry change drops the cached cursor")
	c.Rule("C01-R4", "a cell is marked clean only after its payload write; after wide or substituted output the cached column is dropped")
	c.Rule("C01-R5", "draw: buffering on before any emission, one buf.WriteTo(tty) on every path, buffering off on every exit")
	c.Rule("C01-R6", "showCursor runs after the cell loop on every path; addressing only inside the four-sided on-screen test, otherwise hideCursor")
	c.Rule("C01-R7", "palette indices come from the colour cache or FindColor over the terminal palette; RGB triples from the same colour under truecolor")
	c.Rule("C01-R8", "after painting a wide rune, draw re-dirties the hidden column (bounded by the width)")
	c.Rule("C01-R14", "the RGB values the fitting uses for palette entries (the xterm 256-colour table) are those of the terminal's own palette: every entry's colour count is one whose first entries coincide with that table (0, 8, 16, 256 or direct colour)")
	c.Expect("C01-R14", 49)
	c.Rule("C01-R15", "the hyperlink (and title) the application set reaches the terminal as it was given: application text spliced into a capability never passes through the padding stripper (a \"$<5>\" in a URL would be removed)")
	c.Expect("C01-R15", 2)
	c.Rule("C01-R16", "the style cache holds only what the terminal was completely told: its only writers are the forget-marker and drawCell's store of the style just emitted (behind the comparison with the cache)")
	c.Expect("C01-R16", 2)
	c.Rule("C01-R17", "HideCursor moves the requested cursor position off-screen (the epilogue of every draw re-evaluates the request; a cleared visibility flag alone would be undone by the next Show)")
	c.Expect("C01-R17", 1)
	c.Rule("C01-R18", "in sendFgBg the reset of both colours is emitted before any colour is selected (emitted afterwards it would wipe an RGB colour that was just selected for the other side)")
	c.Expect("C01-R18", 1)
	c.Rule("C01-R19", "the colour cache keeps the identity entries of the terminal's own palette (a palette colour is sent as its own index, not re-fitted by RGB distance onto a lower index with the same nominal value): the map is made once, where it is seeded, and never replaced; entries are only added")
	c.Expect("C01-R19", 1)
	c.Rule("C01-R13", "the underline attribute bit and the underline style stay in step (the painters draw from the style): every Style method that replaces attrs as a whole also sets ulStyle, every method that sets ulStyle also sets the bit")
	c.Expect("C01-R13", 2)
	c.Rule("C01-R12", "LockRegion locks exactly the cells of the rectangle it is given (cells outside it stay paintable)")
	c.Expect("C01-R12", 1)
	c.Rule("C01-R11", "the column a rune is believed to occupy is its go-runewidth width (the painter advances its cursor by it; shared with C08-R7)")
	c.Expect("C01-R11", 3)
	c.Rule("C01-R9", "the cached terminal style is compared as a whole; a component-wise read is allowed only for components the forget-marker (styleInvalid) sets, since for the others a forgotten cache looks like a real value")
	c.Rule("C01-R10", "drawCell returns the cell width reported by GetContent on every path (the column loop skips the hidden half of a wide rune by it)")
	c.Expect("C01-R9", 1)
	c.Expect("C01-R10", 1)
	for r, n := range map[string]int{"C01-R1": 1, "C01-R2": 3, "C01-R3": 5, "C01-R4": 2, "C01-R5": 3, "C01-R6": 3, "C01-R7": 4, "C01-R8": 1} {
		c.Expect(r, n)
	}
	p := c.P("linux")
	if p == nil || p.Tcell == nil {
		c.Undecided("C01-R1", "package tcell", "-", "not loaded")
		return
	}
	c.Rule("C01-R20", "ShowCursor remembers the requested position as given (the two parameters, unconditionally): whether it is on the screen is decided at each draw, so a resize can bring it into view")
	c.Expect("C01-R20", 1)
	checkShowCursorStoresRequest(c, p, "C01-R20", "tScreen")
	c.Rule("C01-R21", "every operand handed to the parameter interpreter (TParm, directly or through a wrapper) is an int, a string or a bool: its stack reads anything else (int32 colour components, bytes) as 0")
	c.Expect("C01-R21", 1)
	checkTParmOperandTypes(c, p, "C01-R21")
	c.Rule("C01-R22", "what the cell buffer remembers as last drawn is a record of its own: storing new combining runes makes a fresh slice, never rewrites the old one in place (the record shares it after a draw, so a changed cell would compare equal and stay unpainted)")
	c.Expect("C01-R22", 1)
	c.asRule("C08-R4", "C01-R22", func() { c08Alias(c, p, cbMethods(p)) })
	c.Rule("C01-R23", "a pass that clears the terminal repaints everything: the clear flag is raised only together with cells.Invalidate() (a pass paints dirty cells only)")
	c.Expect("C01-R23", 1)
	checkClearImpliesInvalidate(c, p, "C01-R23", "tScreen")
	c.Rule("C01-R24", "Fill resolves ColorNone per cell on a copy of the style it was given (resolved in the parameter itself, the first cell's colours are handed to all the others; = C08-R5)")
	c.Expect("C01-R24", 2)
	c.asRule("C08-R5", "C01-R24", func() { c08Merge(c, p, cbMethods(p)) })
	c.Rule("C01-R25", "a style change starts from the attribute reset: in drawCell every colour selection and attribute switch is preceded by AttrOff on every path (underline colour and derived reverse video are not in the attribute mask and only the reset takes them away)")
	c.Expect("C01-R25", 1)
	checkStyleChangeStartsFromReset(c, p, "C01-R25")
	c.Rule("C01-R26", "with the cursor visible at the requested cell: every running pass states the cursor again (showCursor), or decides not to by a record of what the terminal was last told that showCursor refreshes on every way out, the hiding one included")
	c.Expect("C01-R26", 1)
	checkCursorAlwaysRestated(c, p, "C01-R26", "tScreen")
	c.Rule("C01-R27", "after the terminal reports a new size: a channel that is only offered wake-ups (select with default) has room to keep one, so a report that arrives while the main loop is busy is still seen (unbuffered, the second of two quick reports is lost and the screen stays at the old size)")
	c.Expect("C01-R27", 2)
	checkCoalescingChansBuffered(c, p, "C01-R27", "tScreen")
	c.Rule("C01-R28", "after the terminal reports a new size: the channel the window-change signal is delivered on has room for one (os/signal drops a signal when the channel is not ready, and the receiver is not while it runs the resize callback: the report of the final size is then never acted upon)")
	c.Expect("C01-R28", 2)
	checkSignalChansBuffered(c, p, "C01-R28")
	c.Rule("C01-R29", "colours as last set, foreground and background: in sendFgBg every way to a return passes an emission that carries the background (SetBg, SetFgBg or an RGB form), or a test that found the background invalid or the capability empty, or the monochrome branch (an else-if chain selects the foreground and forgets the background on terminals without a combined capability)")
	c.Expect("C01-R29", 1)
	checkBackgroundSelectedOnEveryPath(c, p, "C01-R29")
	c.Rule("C01-R30", "runes shown through the alternate character set: each glyph of the ACS table carries its own enter and exit sequence (a mode tracked across cells is undone behind the screen's back by the attribute reset, which leaves the alternate set on most terminals; = C17-R3)")
	c.Expect("C01-R30", 60)
	c.asRule("C17-R3", "C01-R30", func() { c17Acs(c, p) })
	c.Rule("C01-R31", "nearest palette entry otherwise: the colour cache maps a colour to itself (the palette's identity entries) or to what FindColor answered; nothing else is pre-seeded (bright i+8 to basic i sends grey to black)")
	c.Expect("C01-R31", 1)
	checkColourCacheEntries(c, p, "C01-R31")
	c.Rule("C01-R33", "the nearest palette entry for a colour the terminal lacks, direct colour on or off: the palette and the identity entries of the colour cache are sized by the description's colour count, not by what Colors() reports under direct colour")
	c.Expect("C01-R33", 1)
	checkPaletteSizedByDescription(c, p, "C01-R33")
	c.Rule("C01-R32", "the rune the application last set there, also after the window grew: SetContent stores what it is given (a wide rune in the last column is blanked when drawn, not when stored; = C08-R11)")
	c.Expect("C01-R32", 2)
	checkSetContentStoresWhatItIsGiven(c, p, "C01-R32")
	get := func(name string) *ssa.Function {
		fn := p.Fn("tcell:(*tScreen)." + name)
		if fn == nil {
			c.Undecided("C01-R1", "(*tScreen)."+name, "-", "function not found")
		}
		return fn
	}
	drawCell, draw, resize, sync, mainLoop, showCursor, sendFgBg := get("drawCell"), get("draw"), get("resize"), get("Sync"), get("mainLoop"), get("showCursor"), get("sendFgBg")
	if drawCell == nil || draw == nil || resize == nil || sync == nil || mainLoop == nil || showCursor == nil || sendFgBg == nil {
		return
	}
	isGotoEmit := func(in ssa.Instruction) bool {
		cc := callCommon(in)
		if cc == nil || !strings.HasSuffix(calleeName(cc), "tScreen).TPuts") || len(cc.Args) < 2 {
			return false
		}
		call, ok := cc.Args[1].(*ssa.Call)
		return ok && strings.HasSuffix(calleeName(&call.Call), "Terminfo).TGoto")
	}
	checkStyleCacheReads(c, p, "C01-R9")
	checkUnderlineViews(c, p, "C01-R13")
	checkTextNotPadded(c, p, "C01-R15")
	checkStyleCacheWrites(c, p, "C01-R16")
	checkHideCursor(c, p, "C01-R17", "tScreen")
	checkResetBeforeColours(c, p, "C01-R18")
	{
		n, bad := 0, ""
		for _, fn := range p.modFns {
			if fn.Pkg != p.Tcell {
				continue
			}
			for _, st := range storesTo(fn, "tcell.tScreen", "colors") {
				n++
				seeds := false
				if mk, isMk := st.Val.(*ssa.MakeMap); isMk {
					// seeded right there: an update k -> k on the same map in the same function
					for _, r := range referrers(mk) {
						_ = r
					}
					eachInstr(fn, func(in ssa.Instruction) {
						if mu, isMU := in.(*ssa.MapUpdate); isMU && sameValue(mu.Key, mu.Value) {
							if ref, _, okR := loadedField(mu.Map); okR && ref.Name == "colors" {
								seeds = true
							}
						}
					})
				}
				if !seeds {
					bad += fmt.Sprintf("%s replaces the colour cache at %s without the palette's identity entries; ", fn.Name(), p.pos(st.Pos()))
				}
			}
			eachInstr(fn, func(in ssa.Instruction) {
				if cc := callCommon(in); cc != nil {
					if b, isB := cc.Value.(*ssa.Builtin); isB && (b.Name() == "delete" || b.Name() == "clear") && len(cc.Args) >= 1 {
						if ref, _, okR := loadedField(cc.Args[0]); okR && ref.Owner == "tcell.tScreen" && ref.Name == "colors" {
							bad += fmt.Sprintf("%s removes entries from the colour cache at %s; ", fn.Name(), p.pos(in.Pos()))
						}
					}
				}
			})
		}
		c.Check(n == 1 && bad == "", "C01-R19", "colour-cache:identity-entries-kept", "-", fmt.Sprintf("%d store(s) of the map, made and seeded in one place; no deletion %s", n, bad))
	}
	if db := buildDB(c, p); db != nil {
		for _, e := range db.entries {
			n := e.Int["Colors"]
			ok := n == 0 || n == 2 || n == 8 || n == 16 || n == 256 || n >= 1<<24
			c.Check(ok, "C01-R14", e.Name+":palette-model", p.pos(e.Pos), fmt.Sprintf("%d colours; the screen fits RGB to palette entries using the xterm-256 values of ColorValues, which an %d-colour palette does not share beyond the first 16", n, n))
		}
	}
	if lr := p.Fn("tcell:(*baseScreen).LockRegion"); lr != nil {
		lockRegionRange(c, p, lr, "C01-R12")
	} else {
		c.Undecided("C01-R12", "LockRegion", "-", "not found")
	}
	c08Width(c, p, "C01-R11")
	checkDrawCellWidth(c, p, drawCell, "C01-R10")
	checkResolvedStyle(c, p, drawCell, "C01-R10")
	payload := callsIn(drawCell, func(n string, _ *ssa.CallCommon) bool { return strings.HasSuffix(n, "tScreen).writeString") })
	if len(payload) != 1 {
		c.Undecided("C01-R1", "drawCell:payload", p.pos(drawCell.Pos()), fmt.Sprintf("%d payload writes found, expected 1", len(payload)))
		return
	}
	// ---- R1
	const (
		fGoto Facts = 1 << iota
		fCx
		fCy
		fPos
	)
	upd := func(f Facts) Facts {
		if f&fGoto != 0 || (f&fCx != 0 && f&fCy != 0) {
			f |= fPos
		}
		return f
	}
	instrT := func(in ssa.Instruction, f Facts) Facts {
		if isGotoEmit(in) {
			return upd(f | fGoto)
		}
		return f
	}
	edgeT := func(from *ssa.BasicBlock, idx int, f Facts) Facts {
		iff, ok := from.Instrs[len(from.Instrs)-1].(*ssa.If)
		if !ok {
			return f
		}
		at, ok := condAtom(iff.Cond, idx == 0)
		if !ok {
			return f
		}
		at = at.canon()
		isEq := at.Op == "=="
		pair := at.L + "|" + at.R
		if isEq && (pair == "t.cx|x" || pair == "x|t.cx") {
			f |= fCx
		}
		if isEq && (pair == "t.cy|y" || pair == "y|t.cy") {
			f |= fCy
		}
		return upd(f)
	}
	in := mustFlow(drawCell, 0, instrT, edgeT)
	f := factsAt(in, payload[0], instrT)
	c.Check(f&fPos != 0, "C01-R1", "drawCell:addressed-before-payload", p.pos(payload[0].Pos()), fmt.Sprintf("on every path to the payload write: TGoto emitted or (t.cx==x and t.cy==y) [facts %04b]", f))

	// ---- R2
	// the cells are painted by drawCell calls in draw itself or in a helper it runs per row/region
	// (`drawRow(y)`): drawDeep lists draw's instructions together with those helpers', each with the
	// instruction of draw it is reached through (its anchor)
	reachesDrawCell := func(f *ssa.Function) bool { return f != drawCell && staticReachFrom(p, f)[drawCell] }
	drawDeep := deepInstrs(p, draw, 2, func(_ ssa.Instruction, callee *ssa.Function) bool { return reachesDrawCell(callee) })
	var firstDC []ssa.Instruction // anchors in draw of every drawCell call
	for _, d := range drawDeep {
		if cc := callCommon(d.in); cc != nil && cc.StaticCallee() == drawCell {
			firstDC = append(firstDC, d.anchor)
		}
	}
	if len(firstDC) == 0 {
		c.Undecided("C01-R2", "draw:drawCell", p.pos(draw.Pos()), "no drawCell call in draw")
		return
	}
	domAll := func(st ssa.Instruction) bool {
		for _, a := range firstDC {
			if !instrDominates(st, a) {
				return false
			}
		}
		return true
	}
	for _, fld := range []string{"cx", "cy"} {
		ok := false
		for _, st := range storesTo(draw, "tcell.tScreen", fld) {
			if k, isC := constInt(st.Val); isC && k == -1 && domAll(st) {
				ok = true
			}
		}
		c.Check(ok, "C01-R2", "draw:forget-"+fld, p.pos(draw.Pos()), "t."+fld+" = -1 dominates the first drawCell")
	}
	okSt := false
	for _, st := range storesTo(draw, "tcell.tScreen", "curstyle") {
		if strings.HasSuffix(valName(st.Val), "styleInvalid") && domAll(st) {
			okSt = true
		}
	}
	c.Check(okSt, "C01-R2", "draw:forget-style", p.pos(draw.Pos()), "t.curstyle = styleInvalid dominates the first drawCell")

	// ---- R3
	invalidations := func(fn *ssa.Function) []ssa.Instruction {
		return callsIn(fn, func(n string, _ *ssa.CallCommon) bool {
			return strings.HasSuffix(n, "CellBuffer).Invalidate")
		})
	}
	tied := func(s ssa.Instruction, cands []ssa.Instruction) bool {
		set := map[ssa.Instruction]bool{}
		for _, i := range cands {
			if instrDominates(i, s) {
				return true
			}
			set[i] = true
		}
		return len(cands) > 0 && !existsPathAvoiding(s, set)
	}
	for _, fld := range []string{"w", "h"} {
		sts := storesTo(resize, "tcell.tScreen", fld)
		ok := len(sts) > 0
		for _, st := range sts {
			if !tied(st, invalidations(resize)) {
				ok = false
			}
			for _, cf := range []string{"cx", "cy"} {
				var resets []ssa.Instruction
				for _, s2 := range storesTo(resize, "tcell.tScreen", cf) {
					if k, isC := constInt(s2.Val); isC && k == -1 {
						resets = append(resets, s2)
					}
				}
				if !tied(st, resets) {
					ok = false
				}
			}
		}
		c.Check(ok, "C01-R3", "resize:t."+fld+"-change-invalidates", p.pos(resize.Pos()), "every store of the new size is tied to cells.Invalidate() and to cx=cy=-1")
	}
	for _, root := range []*ssa.Function{sync, mainLoop} {
		// the repaint may sit in the function itself or in a helper it calls (handleResize, …): the
		// rule is applied wherever the draw() call is
		nd := 0
		for _, fn := range hostsOfCall(p, root, "tScreen).draw", 2, map[*ssa.Function]bool{draw: true, resize: true, sync: root != sync}) {
			for _, d := range callsIn(fn, func(n string, _ *ssa.CallCommon) bool { return strings.HasSuffix(n, "tScreen).draw") }) {
				nd++
				ok := false
				for _, i := range invalidations(fn) {
					if instrDominates(i, d) {
						ok = true
					}
				}
				c.Check(ok, "C01-R3", root.Name()+":invalidate-before-draw", p.pos(d.Pos()), "cells.Invalidate() dominates draw()")
			}
		}
		if nd == 0 {
			c.Undecided("C01-R3", root.Name()+":draw", p.pos(root.Pos()), "no draw call")
		}
	}
	okClear := false
	for _, d := range callsIn(sync, func(n string, _ *ssa.CallCommon) bool { return strings.HasSuffix(n, "tScreen).draw") }) {
		for _, st := range storesTo(sync, "tcell.tScreen", "clear") {
			if v, isC := constBool(st.Val); isC && v && instrDominates(st, d) {
				okClear = true
			}
		}
	}
	c.Check(okClear, "C01-R3", "Sync:clear-before-draw", p.pos(sync.Pos()), "t.clear = true dominates draw(): arbitrary previous terminal contents are erased")
	// clearScreen is called in draw under t.clear before the cell loop
	okCS := false
	for _, cs := range callsIn(draw, func(n string, _ *ssa.CallCommon) bool { return strings.HasSuffix(n, "tScreen).clearScreen") }) {
		if instrDominates(cs, firstDC[0]) || cs.Block().Dominates(firstDC[0].Block()) || !reachableAfter(firstDC[0], cs) {
			for _, a := range guardsAt(cs.Block()) {
				if a.L == "t.clear" {
					okCS = true
				}
			}
		}
	}
	c.Check(okCS, "C01-R3", "draw:clear-before-cells", p.pos(draw.Pos()), "pending hardware clear is performed under t.clear before any cell is painted")

	// ---- R4
	checkDirtyGate(c, p, drawCell, "C01-R4", func(in ssa.Instruction) bool { return in == payload[0] }, 1)
	okDrop := false
	for _, st := range storesTo(drawCell, "tcell.tScreen", "cx") {
		if k, isC := constInt(st.Val); isC && k == -1 && instrDominates(payload[0], st) {
			for _, a := range guardsAt(st.Block()) {
				if a.Op == ">" && a.R == "1" && (a.L == "width" || strings.Contains(a.L, "width")) {
					okDrop = true
				}
			}
		}
	}
	c.Check(okDrop, "C01-R4", "drawCell:drop-column-after-wide", p.pos(drawCell.Pos()), "t.cx = -1 after a payload of width > 1")

	// ---- R5
	var bufOn ssa.Instruction
	for _, st := range storesTo(draw, "tcell.tScreen", "buffering") {
		if v, isC := constBool(st.Val); isC && v {
			bufOn = st
		}
	}
	emitters := callsIn(draw, func(n string, cc *ssa.CallCommon) bool {
		if callee := cc.StaticCallee(); callee != nil && reachesDrawCell(callee) {
			return true
		}
		return strings.HasSuffix(n, "tScreen).hideCursor") || strings.HasSuffix(n, "tScreen).clearScreen") || strings.HasSuffix(n, "tScreen).drawCell") ||
			strings.HasSuffix(n, "tScreen).showCursor") || strings.HasSuffix(n, "tScreen).TPuts")
	})
	eachInstr(draw, func(in ssa.Instruction) {
		if callsTextEmitter(in) {
			emitters = append(emitters, in)
		}
	})
	okOn := bufOn != nil && len(emitters) >= 3
	for _, e := range emitters {
		if bufOn == nil || !instrDominates(bufOn, e) {
			okOn = false
		}
	}
	c.Check(okOn, "C01-R5", "draw:buffering-on-first", p.pos(draw.Pos()), fmt.Sprintf("t.buffering = true dominates all %d emitting calls of draw", len(emitters)))
	isFlush := func(n string, cc *ssa.CallCommon) bool {
		if n != "(*bytes.Buffer).WriteTo" || len(cc.Args) < 2 {
			return false
		}
		ref, _, ok := fieldAddrRef(cc.Args[0])
		if !ok || ref.String() != "tcell.tScreen.buf" {
			return false
		}
		a := cc.Args[1]
		if mi, ok := a.(*ssa.MakeInterface); ok {
			a = mi.X
		}
		if ci, ok := a.(*ssa.ChangeInterface); ok {
			a = ci.X
		}
		r2, _, ok := loadedField(a)
		return ok && r2.String() == "tcell.tScreen.tty"
	}
	flush := callsIn(draw, isFlush)
	// … or the same write in a helper of the screen that draw calls for it (`t.flushFrame()`)
	for _, call := range callsIn(draw, func(_ string, cc *ssa.CallCommon) bool {
		h := cc.StaticCallee()
		return h != nil && h.Pkg == p.Tcell && len(h.Blocks) > 0 && recvTypeName(h) == "tcell.tScreen" && len(callsIn(h, isFlush)) == 1
	}) {
		flush = append(flush, call)
	}
	okFlush := len(flush) == 1
	if okFlush && bufOn != nil {
		okFlush = !existsPathAvoiding(bufOn, map[ssa.Instruction]bool{flush[0]: true})
		for _, e := range emitters {
			if reachableAfter(flush[0], e) {
				okFlush = false
			}
		}
	}
	c.Check(okFlush, "C01-R5", "draw:single-flush", p.pos(draw.Pos()), "exactly one buf.WriteTo(t.tty), on every path after buffering was switched on, and nothing is emitted after it")
	okOff := false
	if len(draw.Blocks) > 0 {
		// the deferred reset is registered where buffering is switched on (same block) or before
		// it on every path; an early return ahead of both leaves buffering untouched
		var regs []ssa.Instruction
		for _, b := range draw.Blocks {
			if bufOn != nil && !(b == bufOn.Block() || b.Dominates(bufOn.Block())) {
				continue
			}
			regs = append(regs, b.Instrs...)
		}
		for _, in := range regs {
			if d, ok := in.(*ssa.Defer); ok {
				if cl := staticCallee(&d.Call); cl != nil {
					for _, st := range storesTo(cl, "tcell.tScreen", "buffering") {
						if v, isC := constBool(st.Val); isC && !v {
							okOff = true
						}
					}
				}
			}
		}
	}
	if !okOff && bufOn != nil {
		// non-deferred form: a buffering=false store on every path to every return
		offs := map[ssa.Instruction]bool{}
		for _, st := range storesTo(draw, "tcell.tScreen", "buffering") {
			if v, isC := constBool(st.Val); isC && !v {
				offs[st] = true
			}
		}
		okOff = len(offs) > 0 && !existsPathAvoiding(bufOn, offs)
	}
	c.Check(okOff, "C01-R5", "draw:buffering-off-on-exit", p.pos(draw.Pos()), "t.buffering = false on every exit (deferred)")

	// ---- R6
	sc := callsIn(draw, func(n string, _ *ssa.CallCommon) bool { return strings.HasSuffix(n, "tScreen).showCursor") })
	okSC := len(sc) == 1 && len(flush) == 1 && instrDominates(sc[0], flush[0])
	if okSC {
		for _, d := range firstDC {
			if reachableAfter(sc[0], d) {
				okSC = false
			}
		}
	}
	c.Check(okSC, "C01-R6", "draw:cursor-epilogue", p.pos(draw.Pos()), "showCursor dominates the flush and no cell is painted after it")
	var gotoSite ssa.Instruction
	eachInstr(showCursor, func(in ssa.Instruction) {
		if isGotoEmit(in) {
			gotoSite = in
		}
	})
	if gotoSite == nil {
		c.Fail("C01-R6", "showCursor:goto", p.pos(showCursor.Pos()), "no cursor addressing in showCursor")
	} else {
		g := guardsAt(gotoSite.Block())
		has := func(l, op, r string) bool {
			for _, a := range g {
				if a == (Atom{l, op, r}).canon() {
					return true
				}
			}
			return false
		}
		var xa, ya string
		for _, a := range g {
			for _, o := range []struct{ v, sz, op string }{{a.L, a.R, "<"}, {a.R, a.L, ">"}} {
				if a.Op == o.op && strings.Contains(o.sz, "Size(") {
					if strings.HasSuffix(o.sz, "#0") {
						xa = o.v
					}
					if strings.HasSuffix(o.sz, "#1") {
						ya = o.v
					}
				}
			}
		}
		okT := xa != "" && ya != "" && xa != ya && has(xa, ">=", "0") && has(ya, ">=", "0")
		c.Check(okT, "C01-R6", "showCursor:on-screen-test", p.pos(gotoSite.Pos()), fmt.Sprintf("addressing guarded by %s>=0, %s>=0, %s<width, %s<height of the cell buffer", xa, ya, xa, ya))
		hides := callsIn(showCursor, func(n string, _ *ssa.CallCommon) bool { return strings.HasSuffix(n, "tScreen).hideCursor") })
		okH := len(hides) >= 1
		for _, h := range hides {
			if reachableAfter(h, gotoSite) {
				okH = false
			}
		}
		c.Check(okH, "C01-R6", "showCursor:off-screen-hides", p.pos(showCursor.Pos()), "the off-screen edge reaches hideCursor and never the addressing")
	}

	// ---- R7
	c01Colours(c, p, sendFgBg)

	// ---- R8
	okN := false
	for _, d := range drawDeep {
		call := d.in
		cc := callCommon(call)
		if cc == nil || !strings.HasSuffix(calleeName(cc), "CellBuffer).SetDirty") {
			continue
		}
		v, isC := constBool(cc.Args[3])
		if !isC || !v {
			continue
		}
		arg := derefCell(cc.Args[1])
		bo, ok := arg.(*ssa.BinOp)
		if !ok || bo.Op != token.ADD {
			continue
		}
		if k, ok := constInt(bo.Y); !ok || k != 1 {
			continue
		}
		wide, bounded := false, false
		for _, a := range d.atoms() {
			if strings.Contains(a.L, "drawCell") && a.Op == ">" && a.R == "1" {
				wide = true
			}
			if (a.Op == "<" && a.R == "t.w") || (a.Op == ">" && a.L == "t.w") {
				bounded = true
			}
		}
		if wide && bounded {
			okN = true
		}
	}
	c.Check(okN, "C01-R8", "draw:redirty-hidden-column", p.pos(draw.Pos()), "SetDirty(x+1, y, true) under width > 1 and x+1 < t.w: a wide rune later replaced by a narrow one repaints its right half")
}

func c01Colours(c *Ctx, p *Prog, fn *ssa.Function) {
	for _, call := range callsIn(fn, func(n string, _ *ssa.CallCommon) bool { return strings.HasSuffix(n, "Terminfo).TParm") }) {
		cc := callCommon(call)
		ref, _, ok := loadedField(cc.Args[1])
		if !ok {
			continue
		}
		_, vals, ok := varargCount(cc.Args[2])
		if !ok {
			continue
		}
		switch ref.Name {
		case "SetFg", "SetBg", "SetFgBg":
			for i, v := range vals {
				if mi, isMI := v.(*ssa.MakeInterface); isMI {
					v = mi.X
				}
				v = stripConv(v)
				key := fmt.Sprintf("sendFgBg:%s:arg%d", ref.Name, i+1)
				bo, isBO := v.(*ssa.BinOp)
				if !isBO || bo.Op != token.AND {
					c.Fail("C01-R7", key, p.pos(call.Pos()), "palette index is not masked: "+valName(v))
					continue
				}
				leaves := map[string]int{}
				seen := map[ssa.Value]bool{}
				// bind: parameters of a helper that is being looked into -> the caller's arguments
				bind := map[*ssa.Parameter]ssa.Value{}
				resolve := func(x ssa.Value) ssa.Value {
					for i := 0; i < 4; i++ {
						prm, isP := x.(*ssa.Parameter)
						if !isP {
							break
						}
						b, okB := bind[prm]
						if !okB {
							break
						}
						x = b
					}
					return x
				}
				depth := 0
				var walk func(x ssa.Value)
				walk = func(x ssa.Value) {
					x = resolve(derefCell(x))
					if seen[x] {
						return
					}
					seen[x] = true
					switch y := x.(type) {
					case *ssa.Phi:
						for _, e := range y.Edges {
							walk(e)
						}
					case *ssa.Extract:
						if lk, isLk := y.Tuple.(*ssa.Lookup); isLk {
							if r, _, ok := loadedField(resolve(lk.X)); ok && r.String() == "tcell.tScreen.colors" {
								leaves["cache"]++
								return
							}
						}
						leaves["other:"+valName(x)]++
					case *ssa.Lookup:
						if r, _, ok := loadedField(y.X); ok && r.String() == "tcell.tScreen.colors" {
							leaves["cache"]++
							return
						}
						leaves["other:"+valName(x)]++
					case *ssa.Call:
						if strings.HasSuffix(calleeName(&y.Call), "tcell/v2.FindColor") && len(y.Call.Args) == 2 {
							if r, _, ok := loadedField(resolve(y.Call.Args[1])); ok && r.String() == "tcell.tScreen.palette" {
								leaves["FindColor(palette)"]++
								return
							}
						}
						// a helper of the screen that does the lookup: its results, with its parameters
						// bound to the arguments of this call
						if h := y.Call.StaticCallee(); h != nil && h.Pkg == p.Tcell && len(h.Blocks) > 0 && depth < 2 && recvTypeName(h) == "tcell.tScreen" {
							for i, prm := range h.Params {
								if i < len(y.Call.Args) {
									bind[prm] = y.Call.Args[i]
								}
							}
							depth++
							for _, r := range returnsOf(h) {
								if len(r.Results) == 1 {
									walk(resultOf(r, 0))
								}
							}
							depth--
							return
						}
						leaves["other:"+valName(x)]++
					case *ssa.Parameter:
						leaves["param"]++
					case *ssa.Const:
						leaves["const"]++
					default:
						leaves["other:"+valName(x)]++
					}
				}
				walk(bo.X)
				bad := []string{}
				for k := range leaves {
					if strings.HasPrefix(k, "other:") {
						bad = append(bad, k)
					}
				}
				// the pass-through leaves (parameter / ColorDefault) are excluded by the Valid() guard on the merged value
				guarded := false
				for _, g := range rawGuardsAt(call.Block()) {
					if gc, isCall := g.Cond.(*ssa.Call); isCall && g.Positive && strings.HasSuffix(calleeName(&gc.Call), ".Color).Valid") {
						if derefCell(gc.Call.Args[0]) == derefCell(bo.X) {
							guarded = true
						}
					}
				}
				c.Check(len(bad) == 0 && leaves["cache"] > 0 && leaves["FindColor(palette)"] > 0 && guarded, "C01-R7", key, p.pos(call.Pos()),
					fmt.Sprintf("index provenance %v, emission under Valid() of the fitted colour: %v", leaves, guarded))
			}
		case "SetFgRGB", "SetBgRGB", "SetFgBgRGB":
			key := "sendFgBg:" + ref.Name
			tc := false
			for _, a := range guardsAt(call.Block()) {
				if a.L == "t.truecolor" && ((a.Op == "==" && a.R == "true") || (a.Op == "!=" && a.R == "false")) {
					tc = true
				}
			}
			// components come from RGB() of a colour tested by IsRGB() (argument order r,g,b)
			order := true
			for i, v := range vals {
				if mi, isMI := v.(*ssa.MakeInterface); isMI {
					v = mi.X
				}
				ex, isEx := stripConv(v).(*ssa.Extract)
				if !isEx || ex.Index != i%3 {
					order = false
				}
			}
			c.Check(tc && order, "C01-R7", key, p.pos(call.Pos()), fmt.Sprintf("under t.truecolor: %v; components in r,g,b order from RGB(): %v", tc, order))
		}
	}
}

// hostsOfCall: root and the module functions it reaches through at most depth static calls (goroutines
// not followed, functions in skip not entered) that contain a call whose callee name ends in suffix.
func hostsOfCall(p *Prog, root *ssa.Function, suffix string, depth int, skip map[*ssa.Function]bool) []*ssa.Function {
	var out []*ssa.Function
	seen := map[*ssa.Function]bool{}
	var visit func(fn *ssa.Function, d int)
	visit = func(fn *ssa.Function, d int) {
		if fn == nil || seen[fn] || fn.Pkg != p.Tcell || len(fn.Blocks) == 0 {
			return
		}
		seen[fn] = true
		if len(callsIn(fn, func(n string, _ *ssa.CallCommon) bool { return strings.HasSuffix(n, suffix) })) > 0 {
			out = append(out, fn)
		}
		if d == 0 {
			return
		}
		eachInstr(fn, func(in ssa.Instruction) {
			if _, isGo := in.(*ssa.Go); isGo {
				return
			}
			if cc := callCommon(in); cc != nil {
				if callee := cc.StaticCallee(); callee != nil && !skip[callee] {
					visit(callee, d-1)
				}
			}
		})
		for _, a := range fn.AnonFuncs {
			visit(a, d)
		}
	}
	visit(root, depth)
	return out
}

package main

import (
	_ "embed"
	"encoding/json"
)

//go:embed teeth.json
var teethJSON []byte

var allTeeth []tooth

func init() {
	var raw []struct {
		Prop, Name, File, Old, New, Expect string
	}
	if err := json.Unmarshal(teethJSON, &raw); err != nil {
		panic("teeth.json: " + err.Error())
	}
	for _, r := range raw {
		allTeeth = append(allTeeth, tooth{prop: r.Prop, name: r.Name, file: r.File, old: r.Old, new: r.New, expect: r.Expect})
	}
}

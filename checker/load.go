package main

import (
	"fmt"
	"go/ast"
	"go/token"
	"go/types"
	"os"
	"sort"
	"strings"

	"golang.org/x/tools/go/callgraph"
	"golang.org/x/tools/go/callgraph/cha"
	"golang.org/x/tools/go/packages"
	"golang.org/x/tools/go/ssa"
	"golang.org/x/tools/go/ssa/ssautil"
)

const modPath = "github.com/gdamore/tcell/v2"

// Config is one build configuration of /repo that is analysed.
type Config struct {
	Name   string
	GOOS   string
	GOARCH string
	Tags   string
}

var configs = map[string]Config{
	"linux":   {Name: "linux", GOOS: "linux", GOARCH: "amd64"},
	"wasm":    {Name: "wasm", GOOS: "js", GOARCH: "wasm"},
	"darwin":  {Name: "darwin", GOOS: "darwin", GOARCH: "amd64"},
	"freebsd": {Name: "freebsd", GOOS: "freebsd", GOARCH: "amd64"},
	"windows": {Name: "windows", GOOS: "windows", GOARCH: "amd64"},
	"minimal": {Name: "minimal", GOOS: "linux", GOARCH: "amd64", Tags: "tcell_minimal"},
}

// Prog is the resolved program of one configuration.
type Prog struct {
	Cfg        Config
	Fset       *token.FileSet
	Pkgs       []*packages.Package // module packages only (sorted by path)
	All        map[string]*packages.Package
	SSA        *ssa.Program
	TypeErrors []string

	Tcell    *ssa.Package
	Terminfo *ssa.Package
	Views    *ssa.Package

	funcs   map[string]*ssa.Function // "pkgname:(*T).m" / "pkgname:f"
	allFns  map[*ssa.Function]bool
	cg      *callgraph.Graph
	modFns  []*ssa.Function
	nBlocks int
}

func loadProg(repo string, cfg Config) (*Prog, error) {
	env := []string{}
	for _, e := range os.Environ() {
		if strings.HasPrefix(e, "GOFLAGS=") || strings.HasPrefix(e, "GOOS=") ||
			strings.HasPrefix(e, "GOARCH=") || strings.HasPrefix(e, "GOWORK=") ||
			strings.HasPrefix(e, "GOPROXY=") || strings.HasPrefix(e, "GOSUMDB=") ||
			strings.HasPrefix(e, "GOTOOLCHAIN=") || strings.HasPrefix(e, "CGO_ENABLED=") {
			continue
		}
		env = append(env, e)
	}
	env = append(env, "GOFLAGS=-mod=readonly", "GOOS="+cfg.GOOS, "GOARCH="+cfg.GOARCH,
		"GOWORK=off", "GOPROXY=off", "GOSUMDB=off", "GOTOOLCHAIN=local", "CGO_ENABLED=0")
	pc := &packages.Config{
		Mode:  packages.LoadAllSyntax,
		Dir:   repo,
		Env:   env,
		Tests: false,
	}
	if cfg.Tags != "" {
		pc.BuildFlags = []string{"-tags=" + cfg.Tags}
	}
	initial, err := packages.Load(pc, "./...")
	if err != nil {
		return nil, fmt.Errorf("load %s: %v", cfg.Name, err)
	}
	if len(initial) == 0 {
		return nil, fmt.Errorf("load %s: zero packages", cfg.Name)
	}
	p := &Prog{Cfg: cfg, All: map[string]*packages.Package{}, funcs: map[string]*ssa.Function{}}
	packages.Visit(initial, nil, func(pk *packages.Package) {
		p.All[pk.PkgPath] = pk
	})
	for _, pk := range initial {
		if !strings.HasPrefix(pk.PkgPath, modPath) {
			continue
		}
		// demo programs are mains outside the library; they are loaded
		// (so that a build break shows) but carry no property anchors.
		p.Pkgs = append(p.Pkgs, pk)
		for _, e := range pk.Errors {
			p.TypeErrors = append(p.TypeErrors, e.Error())
		}
		if p.Fset == nil {
			p.Fset = pk.Fset
		}
	}
	sort.Slice(p.Pkgs, func(i, j int) bool { return p.Pkgs[i].PkgPath < p.Pkgs[j].PkgPath })
	if len(p.Pkgs) == 0 {
		return nil, fmt.Errorf("load %s: no module packages", cfg.Name)
	}
	// Build SSA only for packages that type-checked; an ill-typed package
	// is reported through TypeErrors and its anchors come out unresolved.
	prog, _ := ssautil.AllPackages(initial, ssa.InstantiateGenerics)
	p.SSA = prog
	prog.Build()
	for _, sp := range prog.AllPackages() {
		switch sp.Pkg.Path() {
		case modPath:
			p.Tcell = sp
		case modPath + "/terminfo":
			p.Terminfo = sp
		case modPath + "/views":
			p.Views = sp
		}
	}
	p.allFns = ssautil.AllFunctions(prog)
	for fn := range p.allFns {
		if fn.Pkg == nil || !strings.HasPrefix(fn.Pkg.Pkg.Path(), modPath) {
			continue
		}
		if fn.Synthetic != "" && fn.Parent() == nil && !strings.HasPrefix(fn.Name(), "init") {
			continue
		}
		p.modFns = append(p.modFns, fn)
		p.nBlocks += len(fn.Blocks)
		p.funcs[fn.Pkg.Pkg.Name()+":"+fn.RelString(fn.Pkg.Pkg)] = fn
	}
	sort.Slice(p.modFns, func(i, j int) bool { return p.modFns[i].String() < p.modFns[j].String() })
	computeFieldAliases(p)
	textEmitters(p) // recognise the capability-with-text wrappers once, for every rule that looks for emissions
	return p, nil
}

// Fn returns the function "pkg:(*T).m" or nil.
func (p *Prog) Fn(name string) *ssa.Function { return p.funcs[name] }

// CG returns the CHA call graph (built lazily).
func (p *Prog) CG() *callgraph.Graph {
	if p.cg == nil {
		p.cg = cha.CallGraph(p.SSA)
	}
	return p.cg
}

func (p *Prog) pos(pos token.Pos) string {
	if !pos.IsValid() {
		return "-"
	}
	ps := p.Fset.Position(pos)
	f := ps.Filename
	if i := strings.Index(f, "/repo/"); i >= 0 && false {
		f = f[i+6:]
	}
	return fmt.Sprintf("%s:%d", relPath(f), ps.Line)
}

var repoRoot string

func relPath(f string) string {
	if repoRoot != "" && strings.HasPrefix(f, repoRoot+"/") {
		return f[len(repoRoot)+1:]
	}
	return f
}

// pkg returns the go/packages package with the given path suffix under the module.
func (p *Prog) pkg(suffix string) *packages.Package {
	if suffix == "" {
		return p.All[modPath]
	}
	return p.All[modPath+"/"+suffix]
}

// namedType looks up a package-level named type.
func (p *Prog) namedType(pk *ssa.Package, name string) *types.Named {
	if pk == nil {
		return nil
	}
	o := pk.Pkg.Scope().Lookup(name)
	if o == nil {
		return nil
	}
	n, _ := o.Type().(*types.Named)
	return n
}

// fileOf returns the *ast.File containing pos in package pk.
func fileOf(pk *packages.Package, pos token.Pos) *ast.File {
	for _, f := range pk.Syntax {
		if f.Pos() <= pos && pos <= f.End() {
			return f
		}
	}
	return nil
}

package main

import (
	"fmt"
	"go/token"
	"go/types"
	"strings"

	"golang.org/x/tools/go/ssa"
)

func init() {
	register("C05", checkC05, "Event delivery discipline decided structurally: every send on an event queue in the library is enumerated — a lossy (non-blocking) send is allowed only for the resize notification and for PostEvent, every other send is a bare send or a select whose alternatives are receives on shutdown signal channels (back-pressure, not loss); PostEvent returns nil exactly on the send case and ErrEventQFull on the default case; the input pipeline is a single lane (one sender and one receiver of the chunk queue, both goroutine roots started only by engage, events sent in slice order by one loop); every constructed Event carries a timestamp (no nil embedded time); ChannelEvents closes its channel on every exit. Exactly-once/ordering over schedules, HasPendingEvent with several consumers and bounds on When() are not decided.")
}

func isSignalChan(t types.Type) bool {
	ch, ok := t.Underlying().(*types.Chan)
	if !ok {
		return false
	}
	st, ok := ch.Elem().Underlying().(*types.Struct)
	return ok && st.NumFields() == 0
}

var eventQueues = map[string]bool{
	"tcell.tScreen.eventQ": true, "tcell.simscreen.evch": true, "tcell.wScreen.evch": true, "iface.EventQ()": true,
}

func checkC05(c *Ctx) {
	c.Rule("C05-R1", "no lossy send of an input event: non-blocking sends on an event queue only for *EventResize in resize and in PostEvent; other sends block, with only shutdown-signal receives as alternatives")
	c.Rule("C05-R2", "PostEvent returns nil on the send case and ErrEventQFull on the default case, nothing else")
	c.Rule("C05-R3", "single-lane input pipeline: one sender and one receiver of keychan, both go roots started only in engage with matching WaitGroup accounting; events are sent in slice order")
	c.Rule("C05-R4", "every constructed Event has its timestamp set (time.Now()/SetEventNow); an embedded *EventTime is non-nil")
	c.Rule("C05-R5", "ChannelEvents closes its channel on every exit (deferred close in the entry block)")
	c.Rule("C05-R6", "an input chunk queued for the parser goroutine owns its backing array (allocated per chunk): queued input cannot be overwritten by a later read")
	c.Rule("C05-R7", "ChannelEvents holds at most one event: after receiving from the event queue it sends that event on the caller's channel (or returns) before it can receive again")
	c.Rule("C05-R9", "the escape timer is re-armed only after Stop, and a Stop that reports 'already fired' drains the tick: a stale tick would be taken for a fresh timeout and flush a half-received sequence held back behind a full queue")
	c.Expect("C05-R9", 4)
	c.Rule("C05-R10", "Fini always closes the quit channel: the close is unconditional in the function Fini runs once")
	c.Expect("C05-R10", 1)
	c.Rule("C05-R11", "bytes a read returned are queued whatever error came with them (io.Reader: process n > 0 before the error): the send of chunk[:n] is not decided by the read's error")
	c.Expect("C05-R11", 1)
	c.Rule("C05-R12", "input a parser removes with the answer 'complete' becomes an event: every path to a complete-return appends to the event list, except for input the decoder could not decode (U+FFFD that does not compare equal to the charset's own encoding of U+FFFD)")
	c.Expect("C05-R12", 6)
	c.Rule("C05-R17", "When() lies between the arrival of the cause and the delivery: an event's time is time.Now() taken in the function that makes it; nothing re-dates an event afterwards (a stamp carried over from an earlier read precedes the arrival of the input it is put on)")
	c.Expect("C05-R17", 1)
	c.Rule("C05-R18", "input is held back, never dropped, across Suspend and Resume: the termios change Drain makes does not flush the input queue (TCSETSF / TIOCSETAF discard type-ahead the reader has not fetched)")
	c.Expect("C05-R18", 1)
	c.Rule("C05-R19", "key events are delivered, never dropped, on the page as well: every key callback that is not a modifier key on its own posts an event, non-ASCII characters included (= C19-R13)")
	c.Expect("C05-R19", 1)
	c.Rule("C05-R13", "StopQ hands out the channel that only Fini closes (pollers, PostEventWait and ChannelEvents end on it): nothing reachable from Suspend closes that field, Fini's path does")
	c.Expect("C05-R13", 3)
	c.Rule("C05-R14", "every delivered event is a complete Event: what a parser appends to the event list is the result of a constructor (or of a module function all of whose returns are), never a pointer that may be nil inside a non-nil interface")
	c.Expect("C05-R14", 1)
	c.Rule("C05-R8", "no producer of events looks at the fill level of an event queue (len/cap) to decide whether to deliver: that is dropping by another name")
	c.Expect("C05-R6", 1)
	c.Expect("C05-R8", 1)
	c.Expect("C05-R7", 1)
	c.Expect("C05-R1", 6)
	c.Expect("C05-R2", 2)
	c.Expect("C05-R3", 5)
	c.Expect("C05-R4", 10)
	c.Expect("C05-R5", 1)
	c.Rule("C05-R15", "PollEvent returns every event it takes off the queue: the received value is what is returned, and the receive does not sit in a loop that could drop it and wait for another")
	c.Expect("C05-R15", 1)
	c.Rule("C05-R16", "a parser takes out of the buffer exactly what it recognised: what follows a complete sequence (the next key, the ESC of the next report) stays for the next scan (= C02-R9)")
	c.Expect("C05-R16", 8)
	c.Assume("Go channels are FIFO; one producer and one consumer per lane preserve order")
	cfgs := []string{"linux", "wasm"} // the browser callbacks are event producers too
	if c.Tier == "thorough" {
		cfgs = append(cfgs, "darwin")
	}
	for _, cfg := range cfgs {
		p := c.P(cfg)
		if p == nil || p.Tcell == nil {
			c.Undecided("C05-R1", "package tcell", "-", "not loaded for "+cfg)
			continue
		}
		c.curCfg = cfg
		c05Sends(c, p)
		c05Events(c, p)
		c05FillLevel(c, p)
		if cfg == "wasm" {
			checkWebKeyAlwaysPosts(c, p, "C05-R19")
			checkStopQIsQuit(c, p, "C05-R13", "wScreen")
			continue
		}
		c05PostEvent(c, p)
		c05Pipeline(c, p)
		c05Channel(c, p)
		checkChunkOwnership(c, p, "C05-R6")
		checkTimerDiscipline(c, p, "C05-R9")
		checkQuitAlwaysClosed(c, p, "C05-R10")
		checkReadBytesQueued(c, p, "C05-R11")
		checkConsumedDelivers(c, p, "C05-R12", nil)
		checkStopQIsQuit(c, p, "C05-R13", "tScreen")
		checkAppendedEventsConstructed(c, p, "C05-R14")
		checkPollReturnsWhatItReceives(c, p, "C05-R15")
		checkEventTimeFromConstructor(c, p, "C05-R17")
		checkDrainKeepsTypeAhead(c, p, "C05-R18")
		c.Rule("C05-R20", "an event in the queue is delivered: only the consumer side (PollEvent, ChannelEvents, HasPendingEvent of baseScreen) takes events out of a queue; no producer makes room by receiving")
		c.Expect("C05-R20", 1)
		checkOnlyConsumersReceive(c, p, "C05-R20")
		c.asRule("C02-R9", "C05-R16", func() {
			for _, pi := range inputParsers(p) {
				c02Consumption(c, p, pi)
			}
		})
		checkStopQIsQuit(c, p, "C05-R13", "simscreen")
	}
}

func c05Sends(c *Ctx, p *Prog) {
	for _, fn := range p.modFns {
		if fn.Pkg != p.Tcell {
			continue
		}
		short := fn.RelString(p.Tcell.Pkg)
		eachInstr(fn, func(in ssa.Instruction) {
			if deadBlock(in.Block()) {
				return
			}
			switch x := in.(type) {
			case *ssa.Send:
				n := chanName(x.Chan, nil, 0)
				if eventQueues[n] {
					c.OK("C05-R1", short+":send["+n+"]", p.pos(in.Pos()), "bare blocking send")
				}
			case *ssa.Select:
				for i, st := range x.States {
					if st.Dir != types.SendOnly {
						continue
					}
					n := chanName(st.Chan, nil, 0)
					if !eventQueues[n] {
						continue
					}
					key := short + ":select-send[" + n + "]"
					if !x.Blocking {
						// lossy: allowed for the resize notification and PostEvent only
						sent := st.Send
						if mi, ok := sent.(*ssa.MakeInterface); ok {
							sent = mi.X
						}
						tn := typeName(sent.Type())
						// the terminfo and console screens may drop a resize notification (the next
						// resize() sees the size anyway); the simulation, whose SetSize promises the
						// event, and every other sender may not
						okLossy := (tn == "*tcell.EventResize" && (short == "(*tScreen).resize" || short == "(*cScreen).resize")) || (short == "(*baseScreen).PostEvent")
						c.Check(okLossy, "C05-R1", key+":lossy", p.pos(in.Pos()), "non-blocking send of "+tn+" (drops when the queue is full)")
						continue
					}
					bad := []string{}
					for j, o := range x.States {
						if j == i {
							continue
						}
						if o.Dir != types.RecvOnly || !isSignalChan(o.Chan.Type()) {
							bad = append(bad, chanName(o.Chan, nil, 0))
						}
					}
					c.Check(len(bad) == 0, "C05-R1", key, p.pos(in.Pos()), fmt.Sprintf("blocking select; alternatives that are not shutdown signals: %v", bad))
				}
			}
		})
	}
}

func c05PostEvent(c *Ctx, p *Prog) {
	fn := p.Fn("tcell:(*baseScreen).PostEvent")
	if fn == nil {
		c.Undecided("C05-R2", "(*baseScreen).PostEvent", "-", "not found")
		return
	}
	var sel *ssa.Select
	eachInstr(fn, func(in ssa.Instruction) {
		if s, ok := in.(*ssa.Select); ok {
			sel = s
		}
	})
	if sel == nil || sel.Blocking || len(sel.States) != 1 || sel.States[0].Dir != types.SendOnly {
		c.Fail("C05-R2", "PostEvent:shape", p.pos(fn.Pos()), "expected one non-blocking select with a single send case")
		return
	}
	sendBlk := selectCaseBlock(sel, 0)
	rets := returnsOf(fn)
	okNil, okFull, other := false, false, 0
	for _, r := range rets {
		if len(r.Results) != 1 {
			other++
			continue
		}
		inSend := sendBlk != nil && (r.Block() == sendBlk || sendBlk.Dominates(r.Block()))
		switch {
		case isNilConst(r.Results[0]) && inSend:
			okNil = true
		case !inSend && strings.HasSuffix(valName(r.Results[0]), "ErrEventQFull"):
			okFull = true
		default:
			other++
		}
	}
	c.Check(okNil && other == 0, "C05-R2", "PostEvent:send-case-returns-nil", p.pos(fn.Pos()), fmt.Sprintf("nil returned exactly under the send case (other returns: %d)", other))
	c.Check(okFull && other == 0, "C05-R2", "PostEvent:default-returns-ErrEventQFull", p.pos(fn.Pos()), "ErrEventQFull returned exactly on the default case")
}

func c05Pipeline(c *Ctx, p *Prog) {
	senders, receivers := map[string]bool{}, map[string]bool{}
	for _, fn := range p.modFns {
		if fn.Pkg != p.Tcell {
			continue
		}
		eachInstr(fn, func(in ssa.Instruction) {
			if deadBlock(in.Block()) {
				return
			}
			switch x := in.(type) {
			case *ssa.Send:
				if chanName(x.Chan, nil, 0) == "tcell.tScreen.keychan" {
					senders[fn.Name()] = true
				}
			case *ssa.UnOp:
				if x.Op == token.ARROW && chanName(x.X, nil, 0) == "tcell.tScreen.keychan" {
					receivers[fn.Name()] = true
				}
			case *ssa.Select:
				for _, st := range x.States {
					if chanName(st.Chan, nil, 0) == "tcell.tScreen.keychan" {
						if st.Dir == types.SendOnly {
							senders[fn.Name()] = true
						} else {
							receivers[fn.Name()] = true
						}
					}
				}
			}
		})
	}
	c.Check(len(senders) == 1, "C05-R3", "keychan:one-sender", "-", fmt.Sprintf("sending functions: %v", sortedKeys(senders)))
	c.Check(len(receivers) == 1, "C05-R3", "keychan:one-receiver", "-", fmt.Sprintf("receiving functions: %v", sortedKeys(receivers)))
	// go roots started only in one function, dominated by running=true, Add(n) == number of go statements, each root defers Done
	starters := map[string][]ssa.Instruction{}
	for _, fn := range p.modFns {
		if fn.Pkg != p.Tcell {
			continue
		}
		eachInstr(fn, func(in ssa.Instruction) {
			if g, ok := in.(*ssa.Go); ok {
				if cal := staticCallee(&g.Call); cal != nil && (senders[cal.Name()] || receivers[cal.Name()]) && recvTypeName(cal) == "tcell.tScreen" {
					starters[fn.Name()] = append(starters[fn.Name()], in)
				}
			}
		})
	}
	c.Check(len(starters) == 1, "C05-R3", "loops:started-in-one-place", "-", fmt.Sprintf("functions starting the input/main loops: %v", sortedKeys(starters)))
	for name, gos := range starters {
		fn := gos[0].Parent()
		// number of go statements per root
		per := map[string]int{}
		for _, g := range gos {
			per[staticCallee(&g.(*ssa.Go).Call).Name()]++
		}
		once := true
		for _, n := range per {
			if n != 1 {
				once = false
			}
		}
		c.Check(once, "C05-R3", name+":each-loop-started-once", p.pos(gos[0].Pos()), fmt.Sprintf("go statements per loop: %v", per))
		var addN int64 = -1
		var runningStore ssa.Instruction
		eachInstr(fn, func(in ssa.Instruction) {
			if cc := callCommon(in); cc != nil && calleeName(cc) == "(*sync.WaitGroup).Add" && len(cc.Args) == 2 {
				if k, ok := constInt(cc.Args[1]); ok {
					addN = k
				}
			}
			if st, ok := in.(*ssa.Store); ok {
				if ref, _, ok := fieldAddrRef(st.Addr); ok && ref.String() == "tcell.tScreen.running" {
					if v, ok := constBool(st.Val); ok && v {
						runningStore = in
					}
				}
			}
		})
		c.Check(addN == int64(len(gos)), "C05-R3", name+":wg.Add==go-count", p.pos(fn.Pos()), fmt.Sprintf("wg.Add(%d) with %d go statements", addN, len(gos)))
		okRun := runningStore != nil
		for _, g := range gos {
			if runningStore == nil || !instrDominates(runningStore, g) {
				okRun = false
			}
		}
		// the already-running test guards the start: a second engage must not start a second pair
		guardOK := false
		for _, a := range guardsAt(gos[0].Block()) {
			if a.L == "t.running" && ((a.Op == "==" && a.R == "false") || (a.Op == "!=" && a.R == "true")) {
				guardOK = true
			}
		}
		c.Check(okRun && guardOK, "C05-R3", name+":start-guarded-by-running", p.pos(gos[0].Pos()), fmt.Sprintf("go statements dominated by running=true store: %v, and by the !running test: %v", okRun, guardOK))
		for _, g := range gos {
			cal := staticCallee(&g.(*ssa.Go).Call)
			done := false
			if len(cal.Blocks) > 0 {
				for _, in := range cal.Blocks[0].Instrs {
					if d, ok := in.(*ssa.Defer); ok && calleeName(&d.Call) == "(*sync.WaitGroup).Done" {
						done = true
					}
				}
			}
			c.Check(done, "C05-R3", cal.Name()+":defer-wg.Done", p.pos(cal.Pos()), "deferred Done in the entry block")
		}
	}
	// events are sent in slice order by the loop over the slice returned by the collector
	scan := p.Fn("tcell:(*tScreen).scanInput")
	if scan == nil {
		c.Undecided("C05-R3", "(*tScreen).scanInput", "-", "not found")
		return
	}
	found := false
	eachInstr(scan, func(in ssa.Instruction) {
		var sent ssa.Value
		switch x := in.(type) {
		case *ssa.Send:
			sent = x.X
		case *ssa.Select:
			for _, st := range x.States {
				if st.Dir == types.SendOnly {
					sent = st.Send
				}
			}
		case *ssa.Call:
			// a helper that queues the event it is given (`t.deliver(ev, stopQ)`)
			if h := x.Call.StaticCallee(); h != nil && h.Pkg == scan.Pkg && len(h.Blocks) > 0 {
				eachInstr(h, func(hin ssa.Instruction) {
					var hs ssa.Value
					switch y := hin.(type) {
					case *ssa.Send:
						hs = y.X
					case *ssa.Select:
						for _, st := range y.States {
							if st.Dir == types.SendOnly {
								hs = st.Send
							}
						}
					}
					if pa, isP := hs.(*ssa.Parameter); isP {
						for i, q := range h.Params {
							if q == pa && i < len(x.Call.Args) {
								sent = x.Call.Args[i]
							}
						}
					}
				})
			}
		}
		if sent == nil {
			return
		}
		found = true
		// sent = *(&evs[i]) with evs = collectEventsFromInput(...) and i = phi(-1, i+1)
		ok := false
		detail := valName(sent)
		if u, isU := sent.(*ssa.UnOp); isU && u.Op == token.MUL {
			if ia, isIA := u.X.(*ssa.IndexAddr); isIA {
				if call, isCall := ia.X.(*ssa.Call); isCall && strings.HasSuffix(calleeName(&call.Call), "collectEventsFromInput") {
					if isRangeIndex(ia.Index) || (isFullCountedIndex(ia.Index, call) && countsFromZeroByOne(ia.Index)) {
						ok = true
					}
				}
			}
		}
		c.Check(ok, "C05-R3", "scanInput:sends-in-slice-order", p.pos(in.Pos()), "sent value "+detail+" is the range element of the collected events")
	})
	if !found {
		c.Undecided("C05-R3", "scanInput:send", p.pos(scan.Pos()), "no send found")
	}
}

// isRangeIndex: v is the induction variable of a `for i := range s` loop: i = phi(-1, i)+1.
func isRangeIndex(v ssa.Value) bool {
	bo, ok := v.(*ssa.BinOp)
	if !ok || bo.Op != token.ADD {
		return false
	}
	if k, ok := constInt(bo.Y); !ok || k != 1 {
		return false
	}
	phi, ok := bo.X.(*ssa.Phi)
	if !ok || len(phi.Edges) < 2 {
		return false
	}
	hasInit, hasSelf := false, false
	for _, e := range phi.Edges {
		if k, ok := constInt(e); ok && k == -1 {
			hasInit = true
			continue
		}
		if e == ssa.Value(bo) {
			hasSelf = true
			continue
		}
		return false
	}
	return hasInit && hasSelf
}

func c05Channel(c *Ctx, p *Prog) {
	fn := p.Fn("tcell:(*baseScreen).ChannelEvents")
	if fn == nil {
		c.Undecided("C05-R5", "ChannelEvents", "-", "not found")
		return
	}
	ok := false
	if len(fn.Blocks) > 0 {
		for _, in := range fn.Blocks[0].Instrs {
			if d, isD := in.(*ssa.Defer); isD {
				if b, isB := d.Call.Value.(*ssa.Builtin); isB && b.Name() == "close" && len(d.Call.Args) == 1 {
					if prm, isP := d.Call.Args[0].(*ssa.Parameter); isP && prm == fn.Params[1] {
						ok = true
					}
				}
			}
		}
	}
	c.Check(ok, "C05-R5", "ChannelEvents:defer-close(ch)", p.pos(fn.Pos()), "close of the caller's channel is deferred in the entry block")
	c05Forward(c, p, fn)
}

// c05Forward: a forwarder that can take a second event from the queue while
// the first is still waiting to be sent loses the first.  From the case block
// of every receive on the event queue, every path must reach the send-case of a
// select that sends the received value on the caller's channel, or a return,
// before it reaches a receive on the event queue again.
func c05Forward(c *Ctx, p *Prog, fn *ssa.Function) {
	type recvSite struct {
		sel *ssa.Select
		idx int
	}
	var recvs []recvSite
	isEventQ := func(v ssa.Value) bool { return chanName(v, nil, 0) == "iface.EventQ()" }
	recvBlocks := map[*ssa.BasicBlock]bool{}
	type edge struct{ from, to *ssa.BasicBlock }
	sendEdge := map[edge]bool{}
	bareRecv := false
	eachInstr(fn, func(in ssa.Instruction) {
		switch x := in.(type) {
		case *ssa.Select:
			for i, st := range x.States {
				if st.Dir == types.RecvOnly && isEventQ(st.Chan) {
					recvs = append(recvs, recvSite{x, i})
					recvBlocks[x.Block()] = true
				}
				if st.Dir == types.SendOnly && len(fn.Params) > 1 && (st.Chan == ssa.Value(fn.Params[1]) || derivesFrom(st.Chan, fn.Params[1], 0)) {
					if from := selectCaseTest(x, i); from != nil {
						sendEdge[edge{from, from.Succs[0]}] = true
					}
				}
			}
		case *ssa.UnOp:
			if x.Op == token.ARROW && isEventQ(x.X) {
				bareRecv = true
				recvBlocks[x.Block()] = true
			}
		case *ssa.Call:
			// the hand-over in a helper (`if !b.forwardEvent(ch, ev, quit) { return }`): the helper
			// answers true only after it has sent on the caller's channel
			h := x.Call.StaticCallee()
			if h == nil || h.Pkg != fn.Pkg || len(h.Blocks) == 0 || len(fn.Params) < 2 {
				return
			}
			chIdx := -1
			for i, a := range x.Call.Args {
				if a == ssa.Value(fn.Params[1]) || derivesFrom(a, fn.Params[1], 0) {
					chIdx = i
				}
			}
			if chIdx < 0 || chIdx >= len(h.Params) || !trueOnlyAfterSendOn(h, h.Params[chIdx]) {
				return
			}
			for _, r := range referrers(x) {
				cond, neg := ssa.Value(x), false
				if u, isU := r.(*ssa.UnOp); isU && u.Op == token.NOT {
					cond, neg = u, true
					for _, r2 := range referrers(u) {
						if iff, isIf := r2.(*ssa.If); isIf && iff.Cond == cond {
							sendEdge[edge{iff.Block(), iff.Block().Succs[1]}] = true
						}
					}
					continue
				}
				_ = neg
				if iff, isIf := r.(*ssa.If); isIf && iff.Cond == cond {
					sendEdge[edge{iff.Block(), iff.Block().Succs[0]}] = true
				}
			}
		}
	})
	if len(recvs) == 0 && !bareRecv {
		c.Undecided("C05-R7", "ChannelEvents:forwards-before-next-receive", p.pos(fn.Pos()), "no receive on the event queue found")
		return
	}
	bad := ""
	for _, r := range recvs {
		start := selectCaseBlock(r.sel, r.idx)
		if start == nil {
			bad += "case block of the receive not found; "
			continue
		}
		seen := map[*ssa.BasicBlock]bool{}
		stack := []*ssa.BasicBlock{start}
		for len(stack) > 0 {
			b := stack[len(stack)-1]
			stack = stack[:len(stack)-1]
			if seen[b] {
				continue
			}
			seen[b] = true
			if recvBlocks[b] {
				bad += fmt.Sprintf("after the receive at %s control can reach the receive in block %d (%s) without having sent the event; ", p.pos(r.sel.Pos()), b.Index, p.pos(firstPos(b)))
				break
			}
			for _, sc := range b.Succs {
				if !sendEdge[edge{b, sc}] {
					stack = append(stack, sc)
				}
			}
		}
	}
	c.Check(bad == "", "C05-R7", "ChannelEvents:forwards-before-next-receive", p.pos(fn.Pos()), fmt.Sprintf("%d receive(s) on the event queue, each followed by the send of that event or a return on every path %s", len(recvs), bad))
}

// c05Events: every allocation of an Event type sets its time.
func c05Events(c *Ctx, p *Prog) {
	evObj := p.Tcell.Pkg.Scope().Lookup("Event")
	if evObj == nil {
		c.Undecided("C05-R4", "tcell.Event", "-", "interface not found")
		return
	}
	evIface, _ := evObj.Type().Underlying().(*types.Interface)
	timeIs := func(t types.Type) bool { return typeName(t) == "time.Time" }
	for _, fn := range p.modFns {
		if fn.Pkg == nil || (fn.Pkg != p.Tcell && fn.Pkg != p.Views) {
			continue
		}
		eachInstr(fn, func(in ssa.Instruction) {
			al, ok := in.(*ssa.Alloc)
			if !ok {
				return
			}
			pt := al.Type().(*types.Pointer)
			named, ok := types.Unalias(pt.Elem()).(*types.Named)
			if !ok {
				return
			}
			st, ok := named.Underlying().(*types.Struct)
			if !ok || evIface == nil || !types.Implements(pt, evIface) {
				return
			}
			key := fn.RelString(fn.Pkg.Pkg) + ":new(" + named.Obj().Name() + ")"
			// classify the time carrier
			for i := 0; i < st.NumFields(); i++ {
				f := st.Field(i)
				switch {
				case timeIs(f.Type()):
					// a store of time.Now() (or of a time parameter) into this field in fn
					okT := false
					for _, r := range referrers(al) {
						fa, isFA := r.(*ssa.FieldAddr)
						if !isFA || fa.Field != i {
							continue
						}
						for _, r2 := range referrers(fa) {
							if s, isS := r2.(*ssa.Store); isS && s.Addr == ssa.Value(fa) {
								if call, isC := s.Val.(*ssa.Call); isC && calleeName(&call.Call) == "time.Now" {
									okT = true
								}
								if _, isP := s.Val.(*ssa.Parameter); isP {
									okT = true
								}
							}
						}
					}
					if named.Obj().Name() == "EventTime" && !okT {
						// the reusable base: callers stamp it via SetEventNow; checked where it is embedded
						continue
					}
					c.Check(okT, "C05-R4", key+"."+f.Name(), p.pos(al.Pos()), "time field stored from time.Now() at construction")
				case f.Embedded() && typeName(f.Type()) == "*tcell.EventTime":
					okP := false
					for _, r := range referrers(al) {
						fa, isFA := r.(*ssa.FieldAddr)
						if !isFA || fa.Field != i {
							continue
						}
						for _, r2 := range referrers(fa) {
							if s, isS := r2.(*ssa.Store); isS && !isNilConst(s.Val) {
								okP = true
							}
						}
					}
					c.Check(okP, "C05-R4", key+".*EventTime", p.pos(al.Pos()), "embedded *EventTime must be set non-nil, or When() dereferences nil")
					okS := false
					eachInstr(fn, func(in2 ssa.Instruction) {
						cc := callCommon(in2)
						if cc == nil {
							return
						}
						n := calleeName(cc)
						if (strings.HasSuffix(n, ".SetEventNow") || strings.HasSuffix(n, ".SetEventTime")) && len(cc.Args) > 0 && derivesFrom(cc.Args[0], al, 0) {
							okS = true
						}
					})
					c.Check(okS, "C05-R4", key+".*EventTime:stamped", p.pos(al.Pos()), "SetEventNow/SetEventTime called on the new event")
				case f.Embedded() && (typeName(f.Type()) == "tcell.EventTime" || embedsEventTime(f.Type())):
					// SetEventNow/SetEventTime called in this function on a value derived from the alloc
					okS := false
					eachInstr(fn, func(in2 ssa.Instruction) {
						cc := callCommon(in2)
						if cc == nil {
							return
						}
						n := calleeName(cc)
						if strings.HasSuffix(n, ".SetEventNow") || strings.HasSuffix(n, ".SetEventTime") {
							if len(cc.Args) > 0 && derivesFrom(cc.Args[0], al, 0) {
								okS = true
							}
						}
					})
					c.Check(okS, "C05-R4", key+".EventTime", p.pos(al.Pos()), "SetEventNow/SetEventTime called on the new event before it is handed out")
				}
			}
		})
	}
}

func embedsEventTime(t types.Type) bool {
	st, ok := t.Underlying().(*types.Struct)
	if !ok {
		return false
	}
	for i := 0; i < st.NumFields(); i++ {
		if st.Field(i).Embedded() && typeName(st.Field(i).Type()) == "tcell.EventTime" {
			return true
		}
	}
	return false
}

// derivesFrom: v is base, or a field address / conversion chain rooted at base.
func derivesFrom(v ssa.Value, base ssa.Value, d int) bool {
	if d > 6 {
		return false
	}
	if v == base {
		return true
	}
	switch x := v.(type) {
	case *ssa.FieldAddr:
		return derivesFrom(x.X, base, d+1)
	case *ssa.ChangeType:
		return derivesFrom(x.X, base, d+1)
	case *ssa.MakeInterface:
		return derivesFrom(x.X, base, d+1)
	case *ssa.UnOp:
		if dc := derefCell(x); dc != ssa.Value(x) {
			return derivesFrom(dc, base, d+1)
		}
		return derivesFrom(x.X, base, d+1)
	}
	return false
}

// selectCaseTest returns the block ending in `if index == idx`, whose true
// successor is the body of that select case (the body may be empty, in which
// case the successor is whatever follows the select).
func selectCaseTest(sel *ssa.Select, idx int) *ssa.BasicBlock {
	for _, r := range referrers(sel) {
		ex, ok := r.(*ssa.Extract)
		if !ok || ex.Index != 0 {
			continue
		}
		for _, r2 := range referrers(ex) {
			bo, ok := r2.(*ssa.BinOp)
			if !ok || bo.Op != token.EQL {
				continue
			}
			if k, ok := constInt(bo.Y); !ok || int(k) != idx {
				continue
			}
			for _, r3 := range referrers(bo) {
				if iff, ok := r3.(*ssa.If); ok {
					return iff.Block()
				}
			}
		}
	}
	return nil
}

// c05FillLevel: len(ch)/cap(ch) on an event queue is legitimate only where the
// API reports it (HasPendingEvent).  Anywhere else it is the first half of a
// lossy send.
func c05FillLevel(c *Ctx, p *Prog) {
	bad := ""
	n := 0
	for _, fn := range p.modFns {
		if fn.Pkg != p.Tcell {
			continue
		}
		eachInstr(fn, func(in ssa.Instruction) {
			call, ok := in.(*ssa.Call)
			if !ok {
				return
			}
			bi, ok := call.Call.Value.(*ssa.Builtin)
			if !ok || (bi.Name() != "len" && bi.Name() != "cap") || len(call.Call.Args) != 1 {
				return
			}
			ct, ok := call.Call.Args[0].Type().Underlying().(*types.Chan)
			if !ok || typeName(ct.Elem()) != "tcell.Event" {
				return
			}
			n++
			if topFunc(fn).Name() != "HasPendingEvent" {
				bad += fmt.Sprintf("%s consults %s of an event queue at %s; ", fn.Name(), bi.Name(), p.pos(in.Pos()))
			}
		})
	}
	c.Check(bad == "", "C05-R8", "event-queue:fill-level-not-consulted", "-", fmt.Sprintf("%d len/cap uses on event queues, all in HasPendingEvent %s", n, bad))
}

// checkTimerDiscipline: go.mod declares go 1.12, so timers have a buffered
// channel that keeps a tick across Stop.  Reset on a timer whose tick was not
// drained delivers that old tick as if the new period had elapsed.
func checkTimerDiscipline(c *Ctx, p *Prog, rule string) {
	// a Stop whose "already fired" answer leads to a receive on the timer's channel
	drained := func(st *ssa.Call) bool {
		for _, r := range referrers(st) {
			var iff *ssa.If
			neg := false
			switch x := r.(type) {
			case *ssa.If:
				iff = x
			case *ssa.UnOp:
				if x.Op == token.NOT {
					for _, r2 := range referrers(x) {
						if i2, ok := r2.(*ssa.If); ok {
							iff, neg = i2, true
						}
					}
				}
			}
			if iff == nil {
				continue
			}
			falseSucc := iff.Block().Succs[1]
			if neg {
				falseSucc = iff.Block().Succs[0]
			}
			for _, in2 := range falseSucc.Instrs {
				switch y := in2.(type) {
				case *ssa.Select:
					for _, s := range y.States {
						if s.Dir == types.RecvOnly && strings.HasSuffix(valName(s.Chan), ".C") {
							return true
						}
					}
				case *ssa.UnOp:
					if y.Op == token.ARROW && strings.HasSuffix(valName(y.X), ".C") {
						return true
					}
				}
			}
		}
		return false
	}
	timerOf := func(call *ssa.Call) string {
		n := valName(call.Call.Args[0])
		// t.keytimer in a method and in its helper are the same field of the same receiver
		if i := strings.LastIndex(n, "."); i >= 0 {
			return n[i+1:]
		}
		return n
	}
	stopsIn := func(fn *ssa.Function) []*ssa.Call {
		var out []*ssa.Call
		eachInstr(fn, func(in ssa.Instruction) {
			if call, ok := in.(*ssa.Call); ok && calleeName(&call.Call) == "(*time.Timer).Stop" {
				out = append(out, call)
			}
		})
		return out
	}
	// helpers that stop and drain a timer on every path: one drained Stop that dominates every return
	stopHelper := map[*ssa.Function]string{}
	for _, fn := range p.modFns {
		if fn.Pkg != p.Tcell {
			continue
		}
		sts := stopsIn(fn)
		if len(sts) != 1 || !drained(sts[0]) {
			continue
		}
		all := true
		for _, r := range returnsOf(fn) {
			if !instrDominates(sts[0], r) {
				all = false
			}
		}
		hasReset := false
		eachInstr(fn, func(in ssa.Instruction) {
			if call, ok := in.(*ssa.Call); ok && calleeName(&call.Call) == "(*time.Timer).Reset" {
				hasReset = true
			}
		})
		if all && !hasReset {
			stopHelper[fn] = timerOf(sts[0])
		}
	}
	n := 0
	for _, fn := range p.modFns {
		if fn.Pkg != p.Tcell {
			continue
		}
		stops := stopsIn(fn)
		eachInstr(fn, func(in ssa.Instruction) {
			call, ok := in.(*ssa.Call)
			if !ok || calleeName(&call.Call) != "(*time.Timer).Reset" {
				return
			}
			n++
			tm := timerOf(call)
			key := fmt.Sprintf("%s:timer-reset#%d", fn.Name(), n)
			ok2, detail := false, "no Stop of the same timer dominates the Reset"
			for _, st := range stops {
				if timerOf(st) != tm || !instrDominates(st, call) {
					continue
				}
				if drained(st) {
					ok2, detail = true, "Stop at "+p.pos(st.Pos())+", its 'already fired' answer drains the channel"
				} else {
					detail = "Stop at " + p.pos(st.Pos()) + " ignores its result: a tick that already fired stays in the channel"
				}
			}
			if !ok2 {
				// through a helper that stops and drains
				eachInstr(fn, func(in2 ssa.Instruction) {
					cc := callCommon(in2)
					if cc == nil {
						return
					}
					if h := cc.StaticCallee(); h != nil && stopHelper[h] == tm && instrDominates(in2, call) {
						ok2, detail = true, "stopped and drained by "+h.Name()+" (called at "+p.pos(in2.Pos())+")"
					}
				})
			}
			c.Check(ok2, rule, key, p.pos(call.Pos()), detail)
			// whatever is left in the buffer gets a deadline: the re-arm depends on the buffer being
			// non-empty, never on what the leftover looks like (key sequences need not start with ESC)
			content := ""
			for _, a := range guardsAt(call.Block()) {
				if strings.Contains(a.L, "Bytes(") || strings.Contains(a.R, "Bytes(") {
					content += a.String() + "; "
				}
			}
			c.Check(content == "", rule, key+":armed-for-any-leftover", p.pos(call.Pos()), "the re-arm does not inspect the buffered bytes "+content)
		})
	}
	if n == 0 {
		c.Undecided(rule, "timer-reset", "-", "no Timer.Reset found (the escape timeout was expected)")
	}
}

// checkQuitAlwaysClosed: PollEvent returning nil and ChannelEvents closing its
// channel hang on the quit channel; whatever state the screen is in (suspended
// or running), Fini must close it.
func checkQuitAlwaysClosed(c *Ctx, p *Prog, rule string) {
	var site *ssa.Call
	var host *ssa.Function
	for _, g := range p.modFns {
		if g.Pkg != p.Tcell {
			continue
		}
		eachInstr(g, func(in ssa.Instruction) {
			if cl, ok := in.(*ssa.Call); ok {
				if b, ok := cl.Call.Value.(*ssa.Builtin); ok && b.Name() == "close" {
					if chanName(cl.Call.Args[0], nil, 0) == "tcell.tScreen.quit" {
						site, host = cl, g
					}
				}
			}
		})
	}
	if site == nil {
		c.Fail(rule, "tScreen:close(quit)", "-", "the quit channel is never closed")
		return
	}
	bad := ""
	for _, r := range returnsOf(host) {
		if !instrDominates(site, r) {
			bad += "a return at " + p.pos(r.Pos()) + " is reachable without closing quit; "
		}
	}
	c.Check(bad == "", rule, "tScreen:close(quit):unconditional", p.pos(site.Pos()), "close(t.quit) dominates every return of "+host.Name()+" "+bad)
}

// countsFromZeroByOne: v = phi(0, v+1), the counter of `for i := 0; ...; i++`.
func countsFromZeroByOne(v ssa.Value) bool {
	phi, ok := v.(*ssa.Phi)
	if !ok || len(phi.Edges) != 2 {
		return false
	}
	zero, step := false, false
	for _, e := range phi.Edges {
		if k, isK := constInt(e); isK && k == 0 {
			zero = true
			continue
		}
		if bo, isBO := e.(*ssa.BinOp); isBO && bo.Op == token.ADD && bo.X == ssa.Value(phi) {
			if k, isK := constInt(bo.Y); isK && k == 1 {
				step = true
			}
		}
	}
	return zero && step
}

// trueOnlyAfterSendOn: every return of the boolean helper h that can answer true lies behind the
// send case of a select that sends on ch (no way from the entry to such a return avoids that edge).
func trueOnlyAfterSendOn(h *ssa.Function, ch *ssa.Parameter) bool {
	res := h.Signature.Results()
	if res.Len() != 1 {
		return false
	}
	if bt, ok := res.At(0).Type().Underlying().(*types.Basic); !ok || bt.Kind() != types.Bool {
		return false
	}
	type edge struct{ from, to *ssa.BasicBlock }
	cut := map[edge]bool{}
	eachInstr(h, func(in ssa.Instruction) {
		if sel, ok := in.(*ssa.Select); ok {
			for i, st := range sel.States {
				if st.Dir == types.SendOnly && (st.Chan == ssa.Value(ch) || derivesFrom(st.Chan, ch, 0)) {
					if from := selectCaseTest(sel, i); from != nil {
						cut[edge{from, from.Succs[0]}] = true
					}
				}
			}
		}
	})
	if len(cut) == 0 {
		return false
	}
	seen := map[*ssa.BasicBlock]bool{}
	stack := []*ssa.BasicBlock{h.Blocks[0]}
	for len(stack) > 0 {
		b := stack[len(stack)-1]
		stack = stack[:len(stack)-1]
		if seen[b] {
			continue
		}
		seen[b] = true
		if len(b.Instrs) > 0 {
			if r, ok := b.Instrs[len(b.Instrs)-1].(*ssa.Return); ok {
				if v, isC := constBool(derefCell(resultOf(r, 0))); !isC || v {
					return false // true (or something undetermined) without the send
				}
			}
		}
		for _, sc := range b.Succs {
			if !cut[edge{b, sc}] {
				stack = append(stack, sc)
			}
		}
	}
	return true
}
